// Route S harness: distributions (C11): accumulator<T,true>, projector, distribution_result, mid points
//   cfg: ob=0 1-d, ob=1 2-d; bx, by bins; xk = kind of the coordinate (0 finite symbolic, 1 +inf, 2 -inf, 3 NaN)
//        N = number of calls (1 or 2)
#include "harness.hpp"

#include "hep/mc/accumulator.hpp"
#include "hep/mc/integrand.hpp"
#include "hep/mc/mc_point.hpp"
#include "hep/mc/plain.hpp"

#include <vector>

using sym::H;

template <typename T>
struct fill_integrand
{
    std::vector<T> const* xs;
    std::vector<T> const* ys;
    std::vector<T> const* vs;
    std::vector<T> const* fs;
    std::size_t* k;
    bool two_d;
    T operator()(hep::mc_point<T> const&, hep::projector<T>& p) const
    {
        std::size_t const i = (*k)++;
        if (two_d) p.add(0, xs->at(i), ys->at(i), vs->at(i));
        else p.add(0, xs->at(i), vs->at(i));
        return fs->at(i);
    }
};

template <typename T>
static T coordinate(H<T>& h, std::string const& name, long kind)
{
    switch (kind)
    {
    case 1: return h.special(sym::PINF);
    case 2: return h.special(sym::NINF);
    case 3: return h.special(sym::NANK);
    default: return h.input(name, -1e6, 1e6);
    }
}

template <typename T>
static void ob_fill(H<T>& h, bool two_d)
{
    using sym::isfinite;
    using std::isfinite;
    std::size_t const bx = h.get("bx", 2), by = two_d ? h.get("by", 2) : 1, N = h.get("N", 1);
    sym::E().conv_cap = std::max(bx, by) + 2;
    bool const crange = h.get("crange", 0) != 0;     // concrete, exactly representable range [0, 1)
    T const xmin = crange ? T(0.0) : h.input("x_min", -1e3, 1e3), xmax = crange ? T(1.0) : h.input("x_max", -1e3, 1e3);
    h.assume(h.lt(xmin, xmax));
    T ymin = T(0.0), ymax = T(1.0);
    if (two_d)
    {
        ymin = h.input("y_min", -1e3, 1e3); ymax = h.input("y_max", -1e3, 1e3);
        h.assume(h.lt(ymin, ymax));
    }
    hep::distribution_parameters<T> params = two_d
        ? hep::distribution_parameters<T>(bx, by, xmin, xmax, ymin, ymax, "d")
        : hep::distribution_parameters<T>(bx, xmin, xmax, "d");
    T const sx = (xmax - xmin) / T(bx), sy = (ymax - ymin) / T(by);
    h.check("C11|parameters.bin_sizes", h.eq(params.bin_size_x(), sx) && h.eq(params.bin_size_y(), sy) &&
        h.truth(params.bins_x() == bx && params.bins_y() == by) && h.same(params.x_min(), xmin) && h.same(params.y_min(), ymin));

    std::vector<T> xs, ys, vs, fs, ws;
    for (std::size_t i = 0; i != N; ++i)
    {
        xs.push_back(coordinate<T>(h, "x", i == 0 ? h.get("xk", 0) : 0));
        ys.push_back(two_d ? coordinate<T>(h, "y", i == 0 ? h.get("yk", 0) : 0) : T(0.5));
        vs.push_back(h.input("v", -1e6, 1e6));
        fs.push_back(h.input("f", -1e6, 1e6));
        ws.push_back(h.input("w", 0.0, 1e6, true, false));
    }

    // drive the real accumulator the way the integrators do
    std::size_t k = 0;
    fill_integrand<T> fi{&xs, &ys, &vs, &fs, &k, two_d};
    auto integrand = hep::make_integrand<T>(fi, 1, params);
    auto acc = hep::make_accumulator(integrand);
    std::vector<T> rn(1, T(0.5));
    for (std::size_t i = 0; i != N; ++i)
    {
        hep::mc_point<T> const point(rn, ws[i]);
        acc.invoke(integrand, point);
    }
    std::size_t const calls = N + 3;   // the iteration's call count is passed to result()
    hep::plain_result<T> const res = acc.result(calls);

    h.check("C11|result.one_distribution_with_all_bins", h.truth(res.distributions().size() == 1 &&
        res.distributions()[0].results().size() == bx * by));
    if (res.distributions().size() != 1 || res.distributions()[0].results().size() != bx * by) return;
    auto const& dist = res.distributions()[0];
    std::vector<T> const mx = hep::mid_points_x(dist), my = hep::mid_points_y(dist);
    h.check("C11|midpoints.sizes", h.truth(mx.size() == bx * by && my.size() == bx * by));

    if (sym::bit_precise)
    {
        // bit-precise flavour (1-d, one call): the value lands in exactly one bin if the coordinate is inside [x_min, x_max) and in
        // none otherwise; a coordinate within one rounding error of an inner edge may go to either adjacent bin, so only the count
        // and the neighbourhood are asserted: bin k was hit => x_min + (k-1) size <= x < x_min + (k+2) size
        std::size_t hits = 0;
        auto where = h.truth(true);
        for (std::size_t s = 0; s != bx; ++s)
        {
            auto const& bin = dist.results()[s];
            hits += bin.finite_calls();
            if (bin.finite_calls() != 0)
                where = where && h.le(xmin + T(static_cast<double>(s) - 1.0) * sx, xs[0]) && h.lt(xs[0], xmin + T(static_cast<double>(s) + 2.0) * sx);
        }
        // within one rounding error of the upper end of the range the value may land in the last bin or outside (the property's
        // edge tolerance applied to the outer edge: bin_size is a rounded quotient)
        T const eps4 = T(4.0) * std::numeric_limits<T>::epsilon();
        bool const inside = (xmin <= xs[0]) && (xs[0] < xmax);
        bool const clearly_inside = inside && (xs[0] < xmax - (xmax - xmin) * eps4);
        h.check("C11|bitprecise.exactly_one_bin_inside_the_range_none_outside",
            h.truth(clearly_inside ? hits == 1u : (inside ? hits <= 1u : hits == 0u)));
        h.check("C11|bitprecise.hit_bin_is_the_bin_of_the_coordinate_or_its_neighbour", where);
        return;
    }
    for (std::size_t s = 0; s != bx * by; ++s)
    {
        std::size_t const ix = s % bx, iy = s / bx;     // x fastest, then y
        T const lo_x = xmin + T(ix) * sx, hi_x = xmin + T(ix + 1) * sx;
        T const lo_y = ymin + T(iy) * sy, hi_y = ymin + T(iy + 1) * sy;
        h.check("C11|midpoints.slot_order_x_fastest_then_y",
            h.eq(mx[s] * T(2.0), lo_x + hi_x) && h.eq(my[s] * T(2.0), lo_y + hi_y));
        // reference content of this bin: sum over the calls whose coordinate lies in the half open cell
        T sum = T(), sumsq = T();
        std::size_t hits = 0;
        for (std::size_t i = 0; i != N; ++i)
        {
            bool inside = isfinite(xs[i]) && (lo_x <= xs[i]) && (xs[i] < hi_x);
            if (two_d) inside = inside && isfinite(ys[i]) && (lo_y <= ys[i]) && (ys[i] < hi_y);
            if (inside)
            {
                T const t = vs[i] * ws[i];
                sum += t; sumsq += t * t; ++hits;
            }
        }
        auto const& bin = dist.results()[s];
        T const area = sx * sy;
        std::string tag = "[slot" + std::to_string(s) + "]";
        h.check("C11|bin.reports_the_full_number_of_calls", h.truth(bin.calls() == calls));
        h.check("C11|bin.holds_exactly_the_values_whose_coordinate_is_in_its_half_open_interval" + tag,
            h.eq(bin.sum() * area, sum) && h.eq(bin.sum_of_squares() * area * area, sumsq));
        h.check("C11|bin.counters", h.truth(bin.finite_calls() == hits && bin.non_zero_calls() == hits));
        // estimate and error equal those of integrating value * indicator / area
        h.check("C11|bin.estimate_is_that_of_integrand_times_indicator_over_area",
            h.eq(bin.value() * T(calls) * area, sum));
        if (calls >= 2)
        {
            T const E = sum / area / T(calls);
            h.check("C11|bin.variance_is_that_of_integrand_times_indicator_over_area",
                h.eq(bin.variance() * T(calls - 1), sumsq / (area * area) / T(calls) - E * E));
        }
    }
    // the integrated result is not affected by the projection
    T tot = T();
    for (std::size_t i = 0; i != N; ++i) tot += fs[i] * ws[i];
    h.check("C11|integrated_result_unaffected", h.eq(res.sum(), tot) && h.truth(res.calls() == calls));
}

// several distributions on one integrand: 2-d (2 x 2), 1-d (2 bins), 2-d (2 x 1); every call adds one value to each
template <typename T>
struct multi_fill
{
    std::vector<T> const* xs; std::vector<T> const* ys; std::vector<T> const* vs; std::size_t* k;
    T operator()(hep::mc_point<T> const&, hep::projector<T>& p) const
    {
        std::size_t const i = (*k)++;
        p.add(0, xs->at(i), ys->at(i), vs->at(3 * i));
        p.add(1, xs->at(i), vs->at(3 * i + 1));
        p.add(2, ys->at(i), xs->at(i), vs->at(3 * i + 2));
        return T(1.0);
    }
};

template <typename T>
static void ob_several(H<T>& h)
{
    std::size_t const N = h.get("N", 1);
    sym::E().conv_cap = 4;
    std::vector<T> xs, ys, vs;
    for (std::size_t i = 0; i != N; ++i)
    {
        xs.push_back(h.input("x", -0.5, 1.5));
        ys.push_back(h.input("y", -0.5, 1.5));
        for (int q = 0; q != 3; ++q) vs.push_back(h.input("v", -1e6, 1e6));
    }
    std::size_t k = 0;
    multi_fill<T> fi{&xs, &ys, &vs, &k};
    auto integrand = hep::make_integrand<T>(fi, 1,
        hep::distribution_parameters<T>(2, 2, T(0.0), T(1.0), T(0.0), T(1.0), "a"),
        hep::distribution_parameters<T>(2, T(0.0), T(1.0), "b"),
        hep::distribution_parameters<T>(2, 1, T(0.0), T(1.0), T(0.0), T(1.0), "c"));
    auto acc = hep::make_accumulator(integrand);
    std::vector<T> rn(1, T(0.5));
    for (std::size_t i = 0; i != N; ++i)
    {
        hep::mc_point<T> const point(rn, T(1.0));
        acc.invoke(integrand, point);
    }
    hep::plain_result<T> const res = acc.result(N);
    std::size_t const want[3] = {4, 2, 2};
    bool shape = res.distributions().size() == 3;
    for (std::size_t dd = 0; shape && dd != 3; ++dd) shape = res.distributions()[dd].results().size() == want[dd];
    h.check("C11|several.every_distribution_with_all_its_bins", h.truth(shape));
    if (!shape) return;
    // reference: half-open cells of width 1/2 on [0,1) (area 1/4 for a: 2 x 2, 1/2 for b and c)
    auto cell = [&](T const& c, std::size_t i) { return (T(0.5) * T(i) <= c) && (c < T(0.5) * T(i + 1)); };
    for (std::size_t dd = 0; dd != 3; ++dd)
    {
        std::size_t const bx = 2, by = (dd == 0) ? 2 : 1;
        T const area = (dd == 0) ? T(0.25) : T(0.5);
        for (std::size_t s = 0; s != bx * by; ++s)
        {
            std::size_t const ix = s % bx, iy = s / bx;
            T sum = T();
            for (std::size_t i = 0; i != N; ++i)
            {
                T const cx = (dd == 2) ? ys[i] : xs[i];
                T const cy = (dd == 0) ? ys[i] : ((dd == 2) ? xs[i] : T(0.25));
                bool inside = cell(cx, ix);
                if (dd == 0) inside = inside && cell(cy, iy);
                if (dd == 2) inside = inside && (T(0.0) <= cy) && (cy < T(1.0));
                if (inside) sum += vs[3 * i + dd];
            }
            h.check("C11|several.each_bin_of_each_distribution_holds_its_own_values",
                h.eq(res.distributions()[dd].results()[s].sum() * area, sum));
        }
    }
}

template <typename T>
static void body(H<T>& h)
{
    switch (h.get("ob", 0))
    {
    case 0: ob_fill(h, false); break;
    case 1: ob_fill(h, true); break;
    case 2: ob_several(h); break;
    }
}

VERIF_MAIN("distribution", body)
