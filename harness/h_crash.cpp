// Route S harness: crash points while the built-in callback writes the checkpoint file (C18)
//
// The libc entry points libstdc++'s basic_filebuf uses (fopen64, write, writev, fclose) and rename /
// remove are interposed in this binary.  Symbolic mode: files whose name starts with "vfs:" live in an
// in-memory model with the documented file system contract (open for writing truncates or creates,
// writes append, rename replaces atomically); the run is recorded as a sequence of events and every
// crash point - before each event and after an arbitrary byte prefix p of each write, p symbolic - is
// an obligation.  Replay mode: the run is repeated in a forked child on a real file and really killed
// (_exit) at the reported point; the parent inspects the real file.
#include "driver_common.hpp"

#include <cerrno>
#include <dlfcn.h>
#include <sys/stat.h>
#include <sys/uio.h>
#include <sys/wait.h>

namespace vfs
{

struct event
{
    std::string kind;   // open_trunc, write, close, rename, remove
    std::string a, b;   // file names (rename: a -> b)
    std::string data;   // write
    std::size_t iteration;
    std::size_t offset = 0;   // write: position in the file
};

struct state
{
    bool active = false;              // in-memory model on (symbolic mode)
    std::map<int, std::string> fds;   // fd -> vfs name
    std::map<int, std::size_t> offsets;   // fd -> write position (model)
    std::map<std::string, std::string> initial;   // files that exist before the run (model), e.g. left by an earlier kill
    std::map<std::string, std::size_t> sizes;     // current size of the files of the model
    bool no_tmp = false;                          // files named *.tmp cannot be created (name too long, directory in the way, ...)
    std::vector<event> events;
    std::size_t iteration = 0;
    // replay mode: real crash
    bool crash_armed = false;
    long crash_event = -1;            // index into the sequence of events on the real target
    long crash_prefix = -1;           // bytes of a write that still reach the file (-1: crash before the event)
    long seen = 0;
    std::string real_prefix;          // real path prefix standing for "vfs:"
};

inline state& S() { static state s; return s; }

inline bool is_vfs(const char* n) { return n != nullptr && std::strncmp(n, "vfs:", 4) == 0; }

template <typename F>
F next(const char* name)
{
    return reinterpret_cast<F>(dlsym(RTLD_NEXT, name));
}

inline void maybe_crash_before()
{
    state& s = S();
    if (s.crash_armed && s.seen == s.crash_event && s.crash_prefix < 0) _exit(0);
}

}

extern "C"
{

FILE* fopen64(const char* name, const char* mode)
{
    static auto real = vfs::next<FILE* (*)(const char*, const char*)>("fopen64");
    vfs::state& s = vfs::S();
    if (vfs::is_vfs(name))
    {
        if (s.active)
        {
            bool const exists = s.sizes.count(name) != 0;
            if (std::strchr(mode, 'w') == nullptr && !exists) return nullptr;   // "r", "r+": the file must exist
            {
                std::size_t const len = std::strlen(name);
                if (s.no_tmp && len > 4 && std::strcmp(name + len - 4, ".tmp") == 0) { errno = ENAMETOOLONG; return nullptr; }
            }
            FILE* f = real("/dev/null", "w");
            if (f != nullptr)
            {
                s.fds[fileno(f)] = name;
                s.offsets[fileno(f)] = 0;
                if (std::strchr(mode, 'w') != nullptr)
                {
                    s.sizes[name] = 0;
                    s.events.push_back(vfs::event{"open_trunc", name, "", "", s.iteration});
                }
                else if (std::strchr(mode, 'a') != nullptr)
                {
                    s.offsets[fileno(f)] = s.sizes[name];
                    s.events.push_back(vfs::event{"open_keep", name, "", "", s.iteration});
                }
                else
                {
                    s.events.push_back(vfs::event{"open_keep", name, "", "", s.iteration});
                }
            }
            return f;
        }
        // replay: a real file
        std::string path = s.real_prefix + (name + 4);
        vfs::maybe_crash_before();
        FILE* f = real(path.c_str(), mode);
        if (f != nullptr) s.fds[fileno(f)] = name;
        ++s.seen;
        return f;
    }
    return real(name, mode);
}

ssize_t write(int fd, const void* buf, size_t n)
{
    static auto real = vfs::next<ssize_t (*)(int, const void*, size_t)>("write");
    vfs::state& s = vfs::S();
    auto it = s.fds.find(fd);
    if (it != s.fds.end())
    {
        if (s.active)
        {
            vfs::event e{"write", it->second, "", std::string(static_cast<const char*>(buf), n), s.iteration};
            e.offset = s.offsets[fd];
            s.offsets[fd] += n;
            s.sizes[it->second] = std::max(s.sizes[it->second], s.offsets[fd]);
            s.events.push_back(e);
            return static_cast<ssize_t>(n);
        }
        if (s.crash_armed && s.seen == s.crash_event)
        {
            if (s.crash_prefix >= 0) real(fd, buf, std::min<size_t>(n, static_cast<size_t>(s.crash_prefix)));
            _exit(0);
        }
        ++s.seen;
    }
    return real(fd, buf, n);
}

ssize_t writev(int fd, const struct iovec* iov, int cnt)
{
    static auto real = vfs::next<ssize_t (*)(int, const struct iovec*, int)>("writev");
    vfs::state& s = vfs::S();
    auto it = s.fds.find(fd);
    if (it != s.fds.end())
    {
        std::string all;
        for (int i = 0; i < cnt; ++i) all.append(static_cast<const char*>(iov[i].iov_base), iov[i].iov_len);
        return write(fd, all.data(), all.size());
    }
    return real(fd, iov, cnt);
}

int fclose(FILE* f)
{
    static auto real = vfs::next<int (*)(FILE*)>("fclose");
    vfs::state& s = vfs::S();
    int const fd = f ? fileno(f) : -1;
    auto it = s.fds.find(fd);
    if (it != s.fds.end())
    {
        if (s.active) s.events.push_back(vfs::event{"close", it->second, "", "", s.iteration});
        else { vfs::maybe_crash_before(); ++s.seen; }
        s.fds.erase(it);
    }
    return real(f);
}

int rename(const char* a, const char* b)
{
    static auto real = vfs::next<int (*)(const char*, const char*)>("rename");
    vfs::state& s = vfs::S();
    if (vfs::is_vfs(a) || vfs::is_vfs(b))
    {
        if (s.active)
        {
            if (!s.sizes.count(a)) { errno = ENOENT; return -1; }      // nothing to rename: fails, changes nothing
            s.events.push_back(vfs::event{"rename", a, b, "", s.iteration});
            s.sizes[b] = s.sizes[a]; s.sizes.erase(a);
            return 0;
        }
        std::string pa = vfs::is_vfs(a) ? s.real_prefix + (a + 4) : std::string(a);
        std::string pb = vfs::is_vfs(b) ? s.real_prefix + (b + 4) : std::string(b);
        vfs::maybe_crash_before();
        ++s.seen;
        return real(pa.c_str(), pb.c_str());
    }
    return real(a, b);
}

int remove(const char* a)
{
    static auto real = vfs::next<int (*)(const char*)>("remove");
    vfs::state& s = vfs::S();
    if (vfs::is_vfs(a))
    {
        if (s.active) { s.events.push_back(vfs::event{"remove", a, "", "", s.iteration}); return 0; }
        std::string pa = s.real_prefix + (a + 4);
        vfs::maybe_crash_before();
        ++s.seen;
        return real(pa.c_str());
    }
    return real(a);
}

}

// callback that forwards to the built-in one and tells the file model which iteration is being written
template <typename Chk>
struct writing_callback
{
    hep::callback<Chk> inner;
    std::vector<std::string>* texts;   // text of the checkpoint after each iteration
    bool operator()(Chk const& c)
    {
        vfs::S().iteration = c.results().size();
        if (texts) texts->push_back(ser(c));
        return inner(c);
    }
};

// content of every file of the model after the first `upto` events, the event number `upto` (if it is
// a write) contributing its first `prefix` bytes
static std::map<std::string, std::string> files_after(std::vector<vfs::event> const& ev, std::size_t upto, long prefix)
{
    std::map<std::string, std::string> fs = vfs::S().initial;
    for (std::size_t i = 0; i <= upto && i < ev.size(); ++i)
    {
        bool const partial = (i == upto);
        if (partial && prefix < 0) break;
        auto const& e = ev[i];
        if (e.kind == "open_trunc") { if (!partial) fs[e.a] = ""; else fs[e.a] = ""; }
        else if (e.kind == "write")
        {
            std::string const d = partial ? e.data.substr(0, static_cast<std::size_t>(prefix)) : e.data;
            std::string& f = fs[e.a];
            if (f.size() < e.offset + d.size()) f.resize(e.offset + d.size(), '?');
            f.replace(e.offset, d.size(), d);
        }
        else if (e.kind == "rename") { auto it = fs.find(e.a); if (it != fs.end()) { fs[e.b] = it->second; fs.erase(e.a); } }
        else if (e.kind == "remove") fs.erase(e.a);
    }
    return fs;
}

template <typename T, typename A>
static void ob_crash_sym(H<T>& h)
{
    world<T> w(h);
    std::size_t const n = h.get("n", 2);
    auto const calls = calls_pattern(h.get("cp", 0), n);
    A::params(w);
    typename A::chk const base = A::fresh(w);
    std::vector<std::string> texts;
    vfs::S() = vfs::state();
    vfs::S().active = true;
    if (h.get("stale", 0) != 0)
    {
        // files left behind by an earlier run that was killed while writing: a partial temporary file
        vfs::S().initial["vfs:chk.tmp"] = std::string(300, 'z');
        vfs::S().sizes["vfs:chk.tmp"] = 300;
    }
    std::string const old_complete = "# an older complete checkpoint of another run\n0\n17";
    bool const notmp = h.get("notmp", 0) != 0;
    if (notmp)
    {
        // the temporary file cannot be created and a complete checkpoint already exists under the final name
        vfs::S().no_tmp = true;
        vfs::S().initial["vfs:chk"] = old_complete;
        vfs::S().sizes["vfs:chk"] = old_complete.size();
    }
    writing_callback<typename A::chk> cb{hep::callback<typename A::chk>(hep::callback_mode::silent_and_write_chkpt, "vfs:chk", T(0.0)), &texts};
    typename A::chk const out = A::run(w, calls, base, cb);
    vfs::S().active = false;
    std::vector<vfs::event> const ev = vfs::S().events;
    auto const keep_initial = vfs::S().initial;
    h.check("C18|file.one_checkpoint_written_per_iteration", h.truth(texts.size() == n && (notmp || !ev.empty())));
    if (texts.size() != n) return;
    if (notmp)
    {
        // nothing can be written safely: whatever happens, the file under the final name stays a complete checkpoint (the old one
        // or a new one), at every point of the event sequence and after any prefix of any write
        for (std::size_t i = 0; i <= ev.size(); ++i)
        {
            for (int inside = 0; inside != 2; ++inside)
            {
                if (inside && (i >= ev.size() || ev[i].kind != "write")) continue;
                T const p = inside ? h.input("crash_prefix_bytes", 0.0, static_cast<double>(ev[i].data.size())) : T(0.0);
                // a torn write to the final name: complete only at its very end, which the events after it cover; any strict prefix violates
                auto fs = files_after(ev, i, -1);
                auto ok = h.truth(false);
                if (fs.count("vfs:chk"))
                {
                    ok = h.truth(fs["vfs:chk"] == old_complete);
                    for (auto const& t : texts) ok = ok || texts_identical<T>(h, t, fs["vfs:chk"]);
                }
                if (inside && ev[i].a == "vfs:chk") ok = ok && h.eq(p, T(static_cast<double>(ev[i].data.size()))) && h.truth(false);
                h.event("temporary file cannot be created; kill " + std::string(inside ? "inside" : "before") + " event " + std::to_string(i));
                h.check("C18|crash.without_a_temporary_file_the_existing_checkpoint_is_never_destroyed", ok);
            }
        }
        return;
    }

    // after the run: the file holds the final checkpoint
    {
        auto fs = files_after(ev, ev.size(), -1);
        h.check("C03,C18|file.holds_the_last_checkpoint_after_the_run",
            fs.count("vfs:chk") ? texts_identical<T>(h, texts.back(), fs["vfs:chk"]) : h.truth(false));
    }
    // every crash point
    for (std::size_t i = 0; i != ev.size(); ++i)
    {
        std::size_t const it = ev[i].iteration;            // 1-based iteration whose checkpoint is being written
        std::string const& newer = texts.at(it - 1);
        bool const has_older = it >= 2;
        // (a) killed just before event i
        {
            auto fs = files_after(ev, i, -1);
            auto ok = h.truth(false);
            if (!fs.count("vfs:chk")) ok = h.truth(!has_older);                         // absent: only before the first checkpoint exists
            else
            {
                ok = texts_identical<T>(h, newer, fs["vfs:chk"]);
                if (has_older) ok = ok || texts_identical<T>(h, texts.at(it - 2), fs["vfs:chk"]);
            }
            if (!fs.count("vfs:chk") && has_older) h.event("target file missing although an older checkpoint was complete");
            h.event("kill before event " + std::to_string(i) + " (" + ev[i].kind + " " + ev[i].a + ") in iteration " + std::to_string(it));
            h.check("C18|crash.before_" + ev[i].kind + "_leaves_previous_or_new_complete_checkpoint", ok);
        }
        // (b) killed inside a write after p bytes, p symbolic in [0, len]
        if (ev[i].kind == "write")
        {
            auto fs_before = files_after(ev, i, -1);
            T const p = h.input("crash_prefix_bytes", 0.0, static_cast<double>(ev[i].data.size()));
            auto ok = h.truth(false);
            h.event("kill inside write event " + std::to_string(i) + " of " + std::to_string(ev[i].data.size()) + " bytes to " + ev[i].a +
                " in iteration " + std::to_string(it));
            if (ev[i].a == "vfs:chk")
            {
                // the target itself is being written: after p bytes the file is written_so_far + data[0:p]; it is
                // complete only if that is the whole new (or, by coincidence of lengths and content, the old) text
                std::string so_far = fs_before.count("vfs:chk") ? fs_before["vfs:chk"] : std::string();
                if (ev[i].offset != so_far.size())
                {
                    // overwriting in place: every prefix leaves a mixture; complete only after the last byte and only if nothing stale follows
                    so_far = so_far.substr(0, std::min(so_far.size(), ev[i].offset));
                }
                T const total = T(so_far.size()) + p;
                std::string const whole = so_far + ev[i].data;
                auto complete_new = h.eq(total, T(newer.size())) && (whole.size() >= newer.size()
                    ? texts_identical<T>(h, newer, whole.substr(0, newer.size())) : h.truth(false));
                auto complete_old = h.truth(false);
                if (has_older)
                {
                    std::string const& older = texts.at(it - 2);
                    complete_old = h.eq(total, T(older.size())) && (whole.size() >= older.size()
                        ? texts_identical<T>(h, older, whole.substr(0, older.size())) : h.truth(false));
                }
                ok = complete_new || complete_old;
            }
            else
            {
                // another file is being written: the target is as it was before this write, whatever p is
                if (!fs_before.count("vfs:chk")) ok = h.truth(!has_older);
                else
                {
                    ok = texts_identical<T>(h, newer, fs_before["vfs:chk"]);
                    if (has_older) ok = ok || texts_identical<T>(h, texts.at(it - 2), fs_before["vfs:chk"]);
                }
                ok = ok && h.le(T(0.0), p);
            }
            h.check("C18|crash.inside_a_write_leaves_previous_or_new_complete_checkpoint", ok);
        }
    }
}

// replay: really kill a child at the reported point and look at the real file
template <typename T, typename A>
static void ob_crash_real(H<T>& h)
{
    world<T> w(h);
    std::size_t const n = h.get("n", 2);
    auto const calls = calls_pattern(h.get("cp", 0), n);
    A::params(w);
    typename A::chk const base = A::fresh(w);
    std::string const dir = "out/crash_" + std::to_string(::getpid()) + "_";
    bool const stale = h.get("stale", 0) != 0;
    bool const notmp = h.get("notmp", 0) != 0;
    std::string const old_complete = "# an older complete checkpoint of another run\n0\n17";
    auto prepare = [&]() {
        std::remove((dir + "chk").c_str());
        std::remove((dir + "chk.tmp").c_str());
        ::rmdir((dir + "chk.tmp").c_str());
        if (notmp)
        {
            // a directory of that name is in the way: the temporary file cannot be created; an older checkpoint exists
            ::mkdir((dir + "chk.tmp").c_str(), 0700);
            static auto real_fopen = vfs::next<FILE* (*)(const char*, const char*)>("fopen64");
            FILE* f = real_fopen((dir + "chk").c_str(), "w");
            if (f) { std::fwrite(old_complete.data(), 1, old_complete.size(), f); std::fclose(f); }
        }
        if (stale)
        {
            static auto real_fopen = vfs::next<FILE* (*)(const char*, const char*)>("fopen64");
            FILE* f = real_fopen((dir + "chk.tmp").c_str(), "w");
            if (f) { std::string z(300, 'z'); std::fwrite(z.data(), 1, z.size(), f); std::fclose(f); }
        }
    };
    // reference texts and the number of events: uninterrupted run on a real file
    std::vector<std::string> texts;
    vfs::S() = vfs::state();
    vfs::S().real_prefix = dir;
    prepare();
    {
        writing_callback<typename A::chk> cb{hep::callback<typename A::chk>(hep::callback_mode::silent_and_write_chkpt, "vfs:chk", T(0.0)), &texts};
        A::run(w, calls, base, cb);
    }
    long const total_events = vfs::S().seen;
    auto read_file = [&](std::string const& p, bool& exists) {
        std::ifstream in(p);
        exists = in.good();
        std::stringstream ss; ss << in.rdbuf();
        return ss.str();
    };
    bool bad_before = false, bad_inside = false;
    {
        bool exists = false;
        std::string const content = read_file(dir + "chk", exists);
        if (!notmp && (!exists || texts.empty() || content != texts.back()))
        {
            h.check("C03,C18|file.holds_the_last_checkpoint_after_the_run", h.truth(false));
            bad_before = bad_inside = true;
        }
    }
    // the crash prefix is the last input; try every event with that prefix policy
    T const prefix_in = h.input("crash_prefix_bytes");
    for (long e = 0; e < total_events; ++e)
    {
        for (int inside = 0; inside != 2; ++inside)
        {
            prepare();
            pid_t pid = fork();
            if (pid == 0)
            {
                vfs::S() = vfs::state();
                vfs::S().real_prefix = dir;
                vfs::S().crash_armed = true;
                vfs::S().crash_event = e;
                vfs::S().crash_prefix = inside ? static_cast<long>(prefix_in) : -1;
                writing_callback<typename A::chk> cb{hep::callback<typename A::chk>(hep::callback_mode::silent_and_write_chkpt, "vfs:chk", T(0.0)), nullptr};
                A::run(w, calls, base, cb);
                _exit(0);
            }
            int st = 0;
            waitpid(pid, &st, 0);
            bool exists = false;
            std::string const content = read_file(dir + "chk", exists);
            bool ok = notmp ? (exists && content == old_complete) : !exists;   // absent: nothing complete was lost (the run starts without a checkpoint)
            for (auto const& t : texts) ok = ok || (exists && content == t);
            if (!ok) { if (inside) bad_inside = true; else bad_before = true; }
        }
    }
    std::remove((dir + "chk").c_str());
    std::remove((dir + "chk.tmp").c_str());
    ::rmdir((dir + "chk.tmp").c_str());
    if (notmp && (bad_before || bad_inside))
        h.check("C18|crash.without_a_temporary_file_the_existing_checkpoint_is_never_destroyed", h.truth(false));
    if (bad_before)
    {
        h.check("C18|crash.before_open_trunc_leaves_previous_or_new_complete_checkpoint", h.truth(false));
        h.check("C18|crash.before_open_keep_leaves_previous_or_new_complete_checkpoint", h.truth(false));
        h.check("C18|crash.before_write_leaves_previous_or_new_complete_checkpoint", h.truth(false));
        h.check("C18|crash.before_close_leaves_previous_or_new_complete_checkpoint", h.truth(false));
        h.check("C18|crash.before_rename_leaves_previous_or_new_complete_checkpoint", h.truth(false));
    }
    if (bad_inside) h.check("C18|crash.inside_a_write_leaves_previous_or_new_complete_checkpoint", h.truth(false));
}

template <typename T, typename A>
struct dispatch
{
    static void run(H<T>& h) { ob_crash_real<T, A>(h); }
};
template <typename A>
struct dispatch<sym::real, A>
{
    static void run(H<sym::real>& h) { ob_crash_sym<sym::real, A>(h); }
};

template <typename T>
static void body(H<T>& h)
{
    switch (h.get("alg", 0))
    {
    case 0: dispatch<T, plain_alg<T>>::run(h); break;
    case 1: dispatch<T, vegas_alg<T>>::run(h); break;
    case 2: dispatch<T, multi_alg<T>>::run(h); break;
    }
}

VERIF_MAIN("crash", body)
