// Route S harness: hep::vegas_pdf, hep::vegas_icdf, hep::vegas_refine_pdf (C01, C07, C17)
//   cfg: ob=0 icdf, ob=1 refine ; B = bins, d = dimensions, closed=1 allows u == 1
#include "harness.hpp"

#include "hep/mc/vegas_pdf.hpp"
#include "hep/mc/vegas_point.hpp"

#include <vector>

using sym::H;

template <typename T>
static hep::vegas_pdf<T> symbolic_grid(H<T>& h, std::size_t d, std::size_t B, bool strict)
{
    hep::vegas_pdf<T> pdf(d, B);
    for (std::size_t i = 0; i != d; ++i)
    {
        T prev = T(0.0);
        for (std::size_t b = 1; b != B; ++b)
        {
            T g = h.input("g", 0.0, 1.0);
            h.assume(strict ? h.lt(prev, g) : h.le(prev, g));
            pdf.set_bin_left(i, b, g);
            prev = g;
        }
        h.assume(strict ? h.lt(prev, T(1.0)) : h.le(prev, T(1.0)));
    }
    return pdf;
}

template <typename T>
static void ob_icdf(H<T>& h)
{
    std::size_t const B = h.get("B", 3), d = h.get("d", 1);
    bool const closed = h.get("closed", 0) != 0;
    sym::canon_table<T>::closed() = closed;

    auto pdf = symbolic_grid(h, d, B, false);
    std::vector<T> u(d), x(d);
    std::vector<std::size_t> bin(d, 999);
    for (std::size_t i = 0; i != d; ++i)
    {
        u[i] = h.input("u", 0.0, 1.0, false, !closed);
        x[i] = u[i];
    }

    // the real point class (calls the real vegas_icdf)
    hep::vegas_point<T> const point(x, bin, pdf);
    T const weight = point.weight();

    T expected_weight = T(1.0);
    for (std::size_t i = 0; i != d; ++i)
    {
        std::string s = "[dim" + std::to_string(i) + "]";
        h.check("C01,C07,C17|icdf.bin_below_bins" + s, h.truth(bin[i] < B));
        if (bin[i] >= B) return;
        T const left = pdf.bin_left(i, bin[i]);
        T const right = pdf.bin_left(i, bin[i] + 1);
        h.check("C01,C07,C17|icdf.point_inside_reported_bin" + s, h.le(left, x[i]) && h.le(x[i], right));
        h.check("C01,C07,C17|icdf.point_in_unit_interval" + s, h.le(T(0.0), x[i]) && h.le(x[i], T(1.0)));
        if (!closed || !sym::isfinite(u[i]) || true)
        {
            // bin is the one containing u: bin/B <= u < (bin+1)/B   (u == 1 is nudged below 1)
            h.check("C01,C07,C17|icdf.bin_is_floor_u_times_bins" + s,
                h.le(T(bin[i]) / T(B), u[i]) && (h.lt(u[i], T(bin[i] + 1) / T(B)) || h.eq(u[i], T(1.0))));
        }
        if (!closed)
        {
            // affine inverse CDF: x = left + (u*B - bin) * (right - left)
            h.check("C01,C07,C17|icdf.affine_inverse_cdf" + s,
                h.eq(x[i], left + (u[i] * T(B) - T(bin[i])) * (right - left)));
        }
        expected_weight = expected_weight * (T(B) * (right - left));
    }
    h.check("C01,C07,C17|icdf.weight_is_product_of_bins_times_width", h.eq(weight, expected_weight));
    h.check("C01,C07,C17|icdf.point_coordinates_are_what_the_integrand_sees", h.truth(&point.point() == &x));
}

// reference: smoothed, damped importance per bin, as documented (Lepage / CUBA refine_grid)
template <typename T>
static bool importance(std::vector<T> const& data, std::size_t B, T alpha, std::vector<T>& m, T& avg)
{
    using std::log;
    using std::pow;
    std::vector<T> s(B);
    if (B == 1) { s[0] = data[0]; }
    else
    {
        s[0] = T(0.5) * (data[0] + data[1]);
        for (std::size_t b = 1; b + 1 < B; ++b) s[b] = ((data[b - 1] + data[b]) + data[b + 1]) / T(3.0);
        s[B - 1] = T(0.5) * (data[B - 2] + data[B - 1]);
    }
    T norm = s[0];
    for (std::size_t b = 1; b != B; ++b) norm += s[b];
    if (norm == T()) return false;
    m.assign(B, T());
    avg = T();
    for (std::size_t b = 0; b != B; ++b)
    {
        if (s[b] != T())
        {
            T const r = s[b] / norm;
            m[b] = pow((r - T(1.0)) / log(r), alpha);
            avg += m[b];
        }
    }
    avg /= T(B);
    return true;
}

template <typename T>
static void ob_refine(H<T>& h)
{
    std::size_t const B = h.get("B", 3), d = h.get("d", 1);
    bool const zero_case = h.get("zero", 0) != 0;   // all data of dimension 0 is zero

    auto pdf = symbolic_grid(h, d, B, true);
    T const alpha = h.input("alpha", 0.0, 3.0);
    std::vector<T> data(d * B);
    for (std::size_t i = 0; i != d * B; ++i)
    {
        if (zero_case && i < B) data[i] = T(0.0);
        else data[i] = h.input("data", 0.0, 1e30);
    }

    hep::vegas_pdf<T> const np = hep::vegas_refine_pdf(pdf, alpha, data);

    h.check("C07|refine.shape_kept", h.truth(np.bins() == B && np.dimensions() == d));
    for (std::size_t i = 0; i != d; ++i)
    {
        std::string s = "[dim" + std::to_string(i) + "]";
        bool all_finite = true;
        for (std::size_t b = 0; b <= B; ++b) all_finite = all_finite && sym::isfinite(np.bin_left(i, b));
        h.check("C07|refine.boundaries_finite" + s, h.truth(all_finite));
        if (!all_finite) continue;
        h.check("C07|refine.starts_at_zero" + s, h.eq(np.bin_left(i, 0), T(0.0)));
        h.check("C07|refine.ends_at_one" + s, h.eq(np.bin_left(i, B), T(1.0)));
        auto mono = h.truth(true);
        for (std::size_t b = 0; b != B; ++b) mono = mono && h.le(np.bin_left(i, b), np.bin_left(i, b + 1));
        h.check("C07|refine.non_decreasing" + s, mono);

        std::vector<T> di(data.begin() + i * B, data.begin() + (i + 1) * B), m;
        T avg;
        bool const has_data = importance(di, B, alpha, m, avg);
        if (!has_data)
        {
            auto keep = h.truth(true);
            for (std::size_t b = 0; b <= B; ++b) keep = keep && h.eq(np.bin_left(i, b), pdf.bin_left(i, b));
            h.check("C07|refine.zero_data_leaves_grid_unchanged" + s, keep);
            continue;
        }
        // equal share: cumulative importance over the OLD grid, evaluated at each new boundary,
        // equals n * average
        for (std::size_t n = 1; n != B; ++n)
        {
            T const gn = np.bin_left(i, n);
            T cum = T();
            bool done = false;
            T F = T();
            for (std::size_t k = 0; k != B && !done; ++k)
            {
                T const l = pdf.bin_left(i, k), r = pdf.bin_left(i, k + 1);
                if (gn <= r)
                {
                    F = cum + m[k] * (gn - l) / (r - l);
                    done = true;
                }
                cum += m[k];
            }
            h.check("C07|refine.equal_share_of_importance" + s, h.truth(done) && h.eq(F, T(n) * avg));
        }
    }
}

// the uniform grid of a new pdf (and the end points every refined grid inherits from it)
template <typename T>
static void ob_uniform(H<T>& h)
{
    std::size_t const lo = h.get("Bmin", 2), hi = h.get("Bmax", 16), d = h.get("d", 2);
    for (std::size_t B = lo; B <= hi; ++B)
    {
        hep::vegas_pdf<T> const pdf(d, B);
        auto ok = h.truth(pdf.bins() == B && pdf.dimensions() == d);
        auto mono = h.truth(true);
        for (std::size_t i = 0; i != d; ++i)
        {
            ok = ok && h.same(pdf.bin_left(i, 0), T(0.0)) && h.same(pdf.bin_left(i, B), T(1.0));
            for (std::size_t b = 0; b != B; ++b) mono = mono && h.lt(pdf.bin_left(i, b), pdf.bin_left(i, b + 1));
            if (!sym::bit_precise)
                for (std::size_t b = 0; b <= B; ++b) ok = ok && h.eq(pdf.bin_left(i, b) * T(B), T(b));
        }
        h.event("bins " + std::to_string(B));
        h.check("C07,C19|uniform.grid_starts_at_zero_and_ends_at_one_exactly", ok);
        h.check("C07,C19|uniform.boundaries_strictly_increasing", mono);
    }
}

template <typename T>
static void body(H<T>& h)
{
    switch (h.get("ob", 0))
    {
    case 0: ob_icdf(h); break;
    case 1: ob_refine(h); break;
    case 2: ob_uniform(h); break;
    }
}

VERIF_MAIN("vegas_pdf", body)
