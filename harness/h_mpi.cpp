// Route S harness: the MPI drivers on an in-process MPI shim vs the serial drivers (C04, C12, C16, C19, C20)
//   cfg: alg=0 plain,1 vegas,2 multi_channel; P world size; n iterations; tc = total calls pattern
//        ob=0 equivalence with the serial run; ob=1 built-in callbacks with target precision; ob=2 reporting
#include "mpi_shim.hpp"

#include <deque>

#include "driver_common.hpp"

#include "hep/mc/mpi_helper.hpp"

namespace hep
{
template <>
inline MPI_Datatype mpi_datatype<sym::real>()
{
    return MPI_SYM_REAL;
}
}

#include "hep/mc/mpi_callback.hpp"
#include "hep/mc/mpi_multi_channel.hpp"
#include "hep/mc/mpi_plain.hpp"
#include "hep/mc/mpi_vegas.hpp"

template <typename Chk>
struct mpi_always_true
{
    std::vector<std::size_t>* calls_so_far;
    std::size_t const* counter;
    bool operator()(MPI_Comm, Chk const&) const
    {
        if (calls_so_far) calls_so_far->push_back(*counter);
        return true;
    }
};

// per-rank environment: own call log, shared value tables
template <typename T>
struct rank_env
{
    sym::run_log<T> log;
    std::vector<sym::map_record<T>> cc, dc;
    sym::stub_integrand<T> f;
    sym::stub_channel_map<T> m;
    std::vector<std::size_t> calls_at_callback;
    std::size_t ncalls = 0;
    rank_env(world<T>& w)
    {
        f = w.f; f.log = &log;
        m = w.m; m.log = &log; m.coord_calls = &cc; m.dens_calls = &dc;
    }
};

template <typename T, typename CB>
static typename plain_alg<T>::chk mpi_run(plain_alg<T>*, world<T>& w, rank_env<T>& e, std::vector<std::size_t> const& calls,
    typename plain_alg<T>::chk const& c, CB cb)
{
    if (w.h.get("dist2", 0) != 0)
        return hep::mpi_plain(MPI_COMM_WORLD, hep::make_integrand<T>(e.f, w.d, hep::make_dist_params<T>(2, T(0.0), T(1.0), "first"),
            hep::make_dist_params<T>(2, T(0.0), T(1.0), w.name())), calls, c, cb);
    if (w.dist)
        return hep::mpi_plain(MPI_COMM_WORLD, hep::make_integrand<T>(e.f, w.d, hep::make_dist_params<T>(2, T(0.0), T(1.0), w.name())), calls, c, cb);
    return hep::mpi_plain(MPI_COMM_WORLD, hep::make_integrand<T>(e.f, w.d), calls, c, cb);
}
template <typename T, typename CB>
static typename vegas_alg<T>::chk mpi_run(vegas_alg<T>*, world<T>& w, rank_env<T>& e, std::vector<std::size_t> const& calls,
    typename vegas_alg<T>::chk const& c, CB cb)
{
    if (w.h.get("dist2", 0) != 0)
        return hep::mpi_vegas(MPI_COMM_WORLD, hep::make_integrand<T>(e.f, w.d, hep::make_dist_params<T>(2, T(0.0), T(1.0), "first"),
            hep::make_dist_params<T>(2, T(0.0), T(1.0), w.name())), calls, c, cb);
    if (w.dist)
        return hep::mpi_vegas(MPI_COMM_WORLD, hep::make_integrand<T>(e.f, w.d, hep::make_dist_params<T>(2, T(0.0), T(1.0), w.name())), calls, c, cb);
    return hep::mpi_vegas(MPI_COMM_WORLD, hep::make_integrand<T>(e.f, w.d), calls, c, cb);
}
template <typename T, typename CB>
static typename multi_alg<T>::chk mpi_run(multi_alg<T>*, world<T>& w, rank_env<T>& e, std::vector<std::size_t> const& calls,
    typename multi_alg<T>::chk const& c, CB cb)
{
    if (w.dist)
        return hep::mpi_multi_channel(MPI_COMM_WORLD, hep::make_multi_channel_integrand<T>(e.f, w.d, e.m, static_cast<std::size_t>(w.h.get("md", static_cast<long>(w.d))), w.C,
            hep::make_dist_params<T>(2, T(0.0), T(1.0), w.name())), calls, c, cb);
    return hep::mpi_multi_channel(MPI_COMM_WORLD, hep::make_multi_channel_integrand<T>(e.f, w.d, e.m, static_cast<std::size_t>(w.h.get("md", static_cast<long>(w.d))), w.C), calls, c, cb);
}

static std::vector<std::size_t> total_calls_pattern(long tc, std::size_t n)
{
    // tc: 0 -> 1,1,..  1 -> 2,3,2,3..  2 -> 3,1,..  3 -> 4,2..  4 -> 0,2,..  5 -> 5,5
    static std::size_t const pat[6][2] = {{1, 1}, {2, 3}, {3, 1}, {4, 2}, {0, 2}, {5, 5}};
    std::vector<std::size_t> c;
    for (std::size_t i = 0; i != n; ++i) c.push_back(pat[tc % 6][i % 2]);
    return c;
}

template <typename T>
static sym::cond<T> same_call(H<T>& h, sym::call_record<T> const& a, sym::call_record<T> const& b)
{
    auto c = h.truth(a.coords.size() == b.coords.size() && a.bins == b.bins && a.channel == b.channel && a.f_kind == b.f_kind)
        && h.same(a.f, b.f);
    for (std::size_t j = 0; j != a.coords.size() && j != b.coords.size(); ++j) c = c && h.same(a.coords[j], b.coords[j]);
    return c;
}

// ---- ob 0 -----------------------------------------------------------------------------------------
template <typename T, typename A>
static void ob_equivalence(H<T>& h)
{
    world<T> w(h);
    int const P = static_cast<int>(h.get("P", 2));
    std::size_t const n = h.get("n", 2);
    auto const calls = total_calls_pattern(h.get("tc", 1), n);
    A::params(w);
    typename A::chk const base = A::fresh(w);

    // serial reference (records the calls of each iteration)
    std::vector<std::size_t> serial_marks;
    struct serial_cb
    {
        std::vector<std::size_t>* marks; sym::run_log<T>* log;
        bool operator()(typename A::chk const&) const { marks->push_back(log->calls.size()); return true; }
    };
    typename A::chk const serial = A::run(w, calls, base, serial_cb{&serial_marks, &w.log});
    std::string const serial_text = ser(serial);
    std::vector<sym::call_record<T>> const serial_calls = w.log.calls;

    std::deque<rank_env<T>> envs;
    for (int r = 0; r < P; ++r) envs.emplace_back(w);
    std::vector<std::string> texts(P);
    std::vector<typename A::chk> outs(P, base);
    mpishim::run<T>(P, [&](int r) {
        rank_env<T>& e = envs[r];
        struct cb_t
        {
            rank_env<T>* e;
            bool operator()(MPI_Comm, typename A::chk const&) const { e->calls_at_callback.push_back(e->log.calls.size()); return true; }
        };
        outs[r] = mpi_run(static_cast<A*>(nullptr), w, e, calls, base, cb_t{&e});
        texts[r] = ser(outs[r]);
    });
    auto& W = mpishim::W();
    bool same_logs = true;
    for (int r = 1; r < P; ++r) same_logs = same_logs && W.ranks[r].log == W.ranks[0].log;
    if (W.hang || W.mismatch) h.event(W.problem);
    h.check("C04|mpi.all_ranks_execute_the_same_collectives_and_none_hangs", h.truth(!W.hang && !W.mismatch && same_logs));
    if (W.hang || W.mismatch) return;

    // shares and points, iteration by iteration
    auto points = h.truth(true);
    bool shares = true, iterations_ok = true;
    for (int r = 0; r < P; ++r) iterations_ok = iterations_ok && envs[r].calls_at_callback.size() == n;
    h.check("C04,C12|mpi.every_rank_performs_every_iteration_and_calls_back_once", h.truth(iterations_ok && serial_marks.size() == n));
    if (!iterations_ok || serial_marks.size() != n) return;
    for (std::size_t k = 0; k != n; ++k)
    {
        std::size_t const s0 = k == 0 ? 0 : serial_marks[k - 1];
        std::size_t offset = s0;
        std::size_t const q = calls[k] / P, rem = calls[k] % P;
        for (int r = 0; r < P; ++r)
        {
            std::size_t const b = k == 0 ? 0 : envs[r].calls_at_callback[k - 1], e = envs[r].calls_at_callback[k];
            std::size_t const share = e - b;
            shares = shares && share == q + (static_cast<std::size_t>(r) < rem ? 1 : 0);
            for (std::size_t i = 0; i != share; ++i)
            {
                if (offset + i >= serial_marks[k]) { points = points && h.truth(false); break; }
                points = points && same_call<T>(h, envs[r].log.calls[b + i], serial_calls[offset + i]);
            }
            offset += share;
        }
        points = points && h.truth(offset == serial_marks[k]);
    }
    h.check("C04,C16|mpi.rank_shares_follow_the_documented_split", h.truth(shares));
    h.check("C04|mpi.ranks_evaluate_exactly_the_serial_points_in_rank_order", points);
    for (int r = 0; r < P; ++r)
    {
        h.check("C04|mpi.every_rank_returns_the_checkpoint_of_the_serial_run", texts_identical<T>(h, serial_text, texts[r]));
    }
    state_checks<T>(h, w, outs[0], "[mpi rank 0]");
    if (P > 1) state_checks<T>(h, w, outs[P - 1], "[mpi last rank]");
}

// ---- ob 1: built-in callbacks with a target precision ----------------------------------------------------
template <typename T, typename A>
static void ob_stop(H<T>& h)
{
    world<T> w(h);
    int const P = static_cast<int>(h.get("P", 2));
    std::size_t const n = h.get("n", 2);
    auto const calls = total_calls_pattern(h.get("tc", 3), n);
    A::params(w);
    T const target = h.get("t0", 0) != 0 ? T(0.0) : w.h.input("target", 0.0, 1.0, true, false);
    typename A::chk const base = A::fresh(w);
    typename A::chk const serial = A::run(w, calls, base, hep::callback<typename A::chk>(hep::callback_mode::silent, "", target));
    std::string const serial_text = ser(serial);
    std::deque<rank_env<T>> envs;
    for (int r = 0; r < P; ++r) envs.emplace_back(w);
    std::vector<std::string> texts(P);
    mpishim::run<T>(P, [&](int r) {
        auto out = mpi_run(static_cast<A*>(nullptr), w, envs[r], calls, base,
            hep::mpi_callback<typename A::chk>(hep::callback_mode::silent, "", target));
        texts[r] = ser(out);
    });
    auto& W = mpishim::W();
    if (W.hang || W.mismatch) h.event(W.problem);
    h.check("C04,C12|mpi.identical_stop_decision_on_all_ranks_no_hang", h.truth(!W.hang && !W.mismatch));
    if (W.hang || W.mismatch) return;
    for (int r = 0; r < P; ++r)
        h.check("C04,C12|mpi.stops_like_the_serial_run", texts_identical<T>(h, serial_text, texts[r]));
}

// ---- ob 2: reporting (C20): output on rank 0 only, same checkpoints in all modes -------------------------
struct rank_tagging_buf : std::streambuf
{
    std::vector<std::string> per_rank;
    std::string outside;
    int overflow(int c) override
    {
        int const r = mpishim::W().current;
        if (r >= 0 && r < static_cast<int>(per_rank.size())) per_rank[r].push_back(static_cast<char>(c));
        else outside.push_back(static_cast<char>(c));
        return c;
    }
};

template <typename T, typename A>
static void ob_report(H<T>& h)
{
    world<T> w(h);
    int const P = static_cast<int>(h.get("P", 2));
    std::size_t const n = h.get("n", 1);
    auto const calls = total_calls_pattern(h.get("tc", 3), n);
    A::params(w);
    typename A::chk const base = A::fresh(w);
    std::string const file = "out/tmp_mpichk_" + std::to_string(::getpid()) + ".txt";
    hep::callback_mode const modes[4] = {hep::callback_mode::silent, hep::callback_mode::silent_and_write_chkpt,
        hep::callback_mode::verbose, hep::callback_mode::verbose_and_write_chkpt};
    std::string first;
    for (int m = 0; m != 4; ++m)
    {
        std::remove(file.c_str());
        std::deque<rank_env<T>> envs;
        for (int r = 0; r < P; ++r) envs.emplace_back(w);
        std::vector<std::string> texts(P);
        rank_tagging_buf buf;
        buf.per_rank.resize(P);
        {
            struct restore { std::streambuf* old; ~restore() { std::cout.rdbuf(old); } } guard{std::cout.rdbuf(&buf)};
            mpishim::run<T>(P, [&](int r) {
                auto out = mpi_run(static_cast<A*>(nullptr), w, envs[r], calls, base,
                    hep::mpi_callback<typename A::chk>(modes[m], file, T(0.0)));
                texts[r] = ser(out);
            });
        }
        auto& W = mpishim::W();
        h.check("C20|mpi.no_hang_in_any_mode", h.truth(!W.hang && !W.mismatch));
        if (W.hang || W.mismatch) return;
        bool silent_others = true;
        for (int r = 1; r < P; ++r) silent_others = silent_others && buf.per_rank[r].empty();
        h.check("C20|mpi.only_rank_zero_prints", h.truth(silent_others && (m >= 2 ? !buf.per_rank[0].empty() : buf.per_rank[0].empty())));
        if (m == 0) first = texts[0];
        for (int r = 0; r < P; ++r)
            h.check("C20|mpi.checkpoint_identical_in_all_modes_on_all_ranks", texts_identical<T>(h, first, texts[r]));
    }
    std::remove(file.c_str());
}


// ---- ob 3: callbacks returning false at any position (C12): every rank stops there, no hang, same checkpoint as serial ----
template <typename T, typename A>
static void ob_scripted(H<T>& h)
{
    world<T> w(h);
    int const P = static_cast<int>(h.get("P", 2));
    std::size_t const n = h.get("n", 3);
    auto const calls = total_calls_pattern(h.get("tc", 1), n);
    A::params(w);
    typename A::chk const base = A::fresh(w);
    // the answers are a function of the iteration only (the same on every rank, as a callback deciding on the reduced data is)
    std::vector<bool> answers;
    for (std::size_t k = 0; k != n; ++k) answers.push_back(h.choose("callback_returns", 2) == 0);
    struct serial_cb
    {
        std::vector<bool> const* a;
        bool operator()(typename A::chk const& c) const { return a->at(c.results().size() - 1); }
    };
    typename A::chk const serial = A::run(w, calls, base, serial_cb{&answers});
    std::string const serial_text = ser(serial);
    std::size_t expected = n;
    for (std::size_t k = 0; k != n; ++k) if (!answers[k]) { expected = k + 1; break; }
    h.check("C12|mpi.serial_reference_stops_at_the_first_false", h.truth(serial.results().size() == expected));
    std::deque<rank_env<T>> envs;
    for (int r = 0; r < P; ++r) envs.emplace_back(w);
    std::vector<std::string> texts(P);
    std::vector<std::size_t> invocations(P, 0);
    mpishim::run<T>(P, [&](int r) {
        struct cb_t
        {
            std::vector<bool> const* a; std::size_t* count;
            bool operator()(MPI_Comm, typename A::chk const& c) const { ++*count; return a->at(c.results().size() - 1); }
        };
        auto out = mpi_run(static_cast<A*>(nullptr), w, envs[r], calls, base, cb_t{&answers, &invocations[r]});
        texts[r] = ser(out);
    });
    auto& W = mpishim::W();
    if (W.hang || W.mismatch) h.event(W.problem);
    h.check("C04,C12|mpi.no_rank_hangs_when_the_callback_ends_the_run", h.truth(!W.hang && !W.mismatch));
    if (W.hang || W.mismatch) return;
    for (int r = 0; r < P; ++r)
    {
        h.check("C12|mpi.callback_invoked_once_per_performed_iteration_on_every_rank", h.truth(invocations[r] == expected));
        h.check("C04,C12|mpi.stops_like_the_serial_run", texts_identical<T>(h, serial_text, texts[r]));
    }
}

template <typename T, typename A>
static void by_ob(H<T>& h)
{
    switch (h.get("ob", 0))
    {
    case 0: ob_equivalence<T, A>(h); break;
    case 1: ob_stop<T, A>(h); break;
    case 2: ob_report<T, A>(h); break;
    case 3: ob_scripted<T, A>(h); break;
    }
}

template <typename T>
static void body(H<T>& h)
{
    switch (h.get("alg", 0))
    {
    case 0: by_ob<T, plain_alg<T>>(h); break;
    case 1: by_ob<T, vegas_alg<T>>(h); break;
    case 2: by_ob<T, multi_alg<T>>(h); break;
    }
}

VERIF_MAIN("mpi", body)
