// Route S harness: multi-channel kernels (C01, C08, C09)
//   ob=0 multi_channel_refine_weights   ob=1 discrete_distribution   ob=2 multi_channel_point2::weight
//   ob=3 multi_channel_chkpt constructor / channels(): initial weights
#include "harness.hpp"

#include "hep/mc/discrete_distribution.hpp"
#include "hep/mc/multi_channel_chkpt.hpp"
#include "hep/mc/multi_channel_point.hpp"
#include "hep/mc/multi_channel_refine_weights.hpp"

#include <vector>

using sym::H;
using std::fmax;
using sym::fmax;

// symbolic weight vector: every entry >= 0; which entries are zero is decided by a harness fork so
// that each zero pattern is one case (at least one entry non-zero)
template <typename T>
static std::vector<T> symbolic_weights(H<T>& h, std::size_t C, std::vector<bool>& zero, double hi = 1e6)
{
    std::vector<T> w(C);
    zero.assign(C, false);
    bool any = false;
    for (std::size_t i = 0; i != C; ++i)
    {
        bool z = h.choose("weight_is_zero", 2) == 1;
        if (i + 1 == C && !any) z = false;
        zero[i] = z;
        if (z) w[i] = T(0.0);
        else { w[i] = h.input("w", 0.0, hi, true, false); any = true; }
    }
    return w;
}

template <typename T>
static void ob_refine_weights(H<T>& h)
{
    using std::pow;
    std::size_t const C = h.get("C", 3);
    std::vector<bool> wz;
    std::vector<T> const w = symbolic_weights(h, C, wz);
    std::vector<T> data(C);
    std::vector<bool> dz(C);
    bool all_zero = true;         // over enabled channels
    for (std::size_t i = 0; i != C; ++i)
    {
        dz[i] = h.choose("datum_is_zero", 2) == 1;
        data[i] = dz[i] ? T(0.0) : h.input("W", 0.0, 1e30, true, false);
        if (!wz[i] && !dz[i]) all_zero = false;
    }
    T const beta = h.input("beta", 0.0, 1.0, true, false);
    T const minw = h.input("min", 0.0, 1.0);
    h.assume(h.lt(minw * T(C), T(1.0)));

    std::vector<T> const nw = hep::multi_channel_refine_weights(w, data, minw, beta);

    h.check("C08|refine_weights.size_kept", h.truth(nw.size() == C));
    if (nw.size() != C) return;

    bool fin = true;
    for (auto const& x : nw) fin = fin && sym::isfinite(x);

    if (all_zero)
    {
        // no information: the weights stay as they were (up to the normalisation they already had)
        T s = T();
        for (auto const& x : w) s += x;
        auto keep = h.truth(fin);
        if (fin) for (std::size_t i = 0; i != C; ++i) keep = keep && (h.eq(nw[i] * s, w[i]) || h.eq(nw[i], w[i]));
        h.check("C08|refine_weights.zero_data_leaves_weights_unchanged", keep);
        return;
    }

    h.check("C08|refine_weights.finite", h.truth(fin));
    if (!fin) return;
    T sum = T();
    auto nonneg = h.truth(true);
    for (auto const& x : nw) { sum += x; nonneg = nonneg && h.le(T(0.0), x); }
    h.check("C08|refine_weights.non_negative", nonneg);
    h.check("C01,C08|refine_weights.sum_to_one", h.eq(sum, T(1.0)));
    auto disabled = h.truth(true);
    for (std::size_t i = 0; i != C; ++i) if (wz[i]) disabled = disabled && h.eq(nw[i], T(0.0));
    h.check("C08|refine_weights.disabled_stay_disabled", disabled);

    // documented formula
    std::vector<T> t(C);
    T S = T();
    for (std::size_t i = 0; i != C; ++i) { t[i] = w[i] * pow(data[i], beta); S += t[i]; }
    std::vector<T> c(C);
    T S2 = T();
    for (std::size_t i = 0; i != C; ++i)
    {
        if (wz[i] || dz[i]) { c[i] = T(0.0); continue; }
        c[i] = fmax(t[i] / S, minw);
        S2 += c[i];
    }
    auto formula = h.truth(true), floor_ok = h.truth(true);
    for (std::size_t i = 0; i != C; ++i)
    {
        if (wz[i] || dz[i]) continue;
        formula = formula && h.eq(nw[i] * S2, c[i]);
        floor_ok = floor_ok && h.le(minw, nw[i] * (T(1.0) + T(C) * minw));
    }
    h.check("C08|refine_weights.documented_formula", formula);
    h.check("C08|refine_weights.minimum_weight_floor", floor_ok);
}

template <typename T>
static void ob_discrete(H<T>& h)
{
    std::size_t const C = h.get("C", 3);
    bool const closed = h.get("closed", 0) != 0;
    sym::canon_table<T>::closed() = closed;
    std::vector<bool> wz;
    std::vector<T> const w = symbolic_weights(h, C, wz);

    hep::discrete_distribution<std::size_t, T> dist(w.begin(), w.end());
    sym::stub_engine eng;
    std::size_t const before = sym::canon_table<T>::draws().size();
    std::size_t const r = dist(eng);
    std::size_t const draws = sym::canon_table<T>::draws().size() - before;
    T const u = sym::canon_table<T>::table().at(0);

    h.check("C09,C10|select.one_canonical_number_per_selection", h.truth(draws == 1));
    h.check("C09,C17|select.index_is_a_channel", h.truth(r < C));
    if (r >= C) return;
    h.check("C09,C17|select.never_a_disabled_channel", h.truth(!wz[r]));
    if (sym::bit_precise) return;   // the interval identity is an exact-real statement
    // interval of the cumulative normalised weights (either closure of the end points)
    T total = T();
    for (auto const& x : w) total += x;
    T lo = T();
    for (std::size_t i = 0; i != r; ++i) lo += w[i];
    T const hi = lo + w[r];
    h.check("C01,C09|select.u_in_interval_of_cumulative_weights",
        h.le(lo, u * total) && h.le(u * total, hi));
}

// stub map for the weight obligation
template <typename T>
struct stub_map
{
    H<T>* h;
    std::vector<T> p;        // densities it will write (enabled channels only)
    T jac;
    mutable int density_calls = 0;
    mutable std::size_t seen_channel = 999;
    mutable bool same_buffers = true;
    std::vector<T> const* rn;
    std::vector<T>* coords;
    std::vector<T>* dens;
    std::vector<std::size_t> const* enabled;

    T operator()(std::size_t channel, std::vector<T> const& random_numbers, std::vector<T>& coordinates,
        std::vector<std::size_t> const& enabled_channels, std::vector<T>& densities,
        hep::multi_channel_map action) const
    {
        if (action == hep::multi_channel_map::calculate_densities)
        {
            ++density_calls;
            seen_channel = channel;
            same_buffers = (&random_numbers == rn) && (&coordinates == coords) && (&densities == dens) &&
                (&enabled_channels == enabled);
            for (auto const i : enabled_channels) densities[i] = p[i];
            return jac;
        }
        return T(1.0);
    }
};

template <typename T>
static void ob_point_weight(H<T>& h)
{
    std::size_t const C = h.get("C", 3);
    std::vector<bool> wz;
    std::vector<T> w = symbolic_weights(h, C, wz, 1.0);
    std::vector<std::size_t> enabled;
    for (std::size_t i = 0; i != C; ++i) if (!wz[i]) enabled.push_back(i);
    std::size_t const channel = enabled[h.choose("channel", static_cast<int>(enabled.size()))];

    std::vector<T> rn(1, h.input("u", 0.0, 1.0, false, true));
    std::vector<T> coords(1, rn[0]);
    std::vector<T> dens(C);
    stub_map<T> map;
    map.h = &h;
    map.p.resize(C);
    for (std::size_t i = 0; i != C; ++i)
    {
        map.p[i] = h.input("p", 0.0, 1e6);
        dens[i] = h.input("garbage", -1e6, 1e6);   // content of the buffer before the map fills it
    }
    // the selected channel generated the point, so its density there is positive
    h.assume(h.lt(T(0.0), map.p[channel]));
    map.jac = h.input("J", 0.0, 1e6, true, false);
    map.rn = &rn; map.coords = &coords; map.dens = &dens; map.enabled = &enabled;

    hep::multi_channel_point2<T, stub_map<T>> const point(rn, coords, channel, dens, w, enabled, map);
    h.check("C17|point.densities_not_requested_before_weight_is_used", h.truth(map.density_calls == 0));
    T const wt = point.weight();
    T const wt2 = point.weight();
    h.check("C17|point.densities_requested_once_with_selected_channel_and_same_buffers",
        h.truth(map.density_calls == 1 && map.seen_channel == channel && map.same_buffers));
    T total = T();
    for (std::size_t j = 0; j != C; ++j) if (!wz[j]) total += w[j] * map.p[j];
    h.check("C01|point.weight_is_jacobian_over_weighted_density_sum",
        h.finite(wt) && h.eq(wt * total, map.jac));
    h.check("C01|point.weight_is_stable", h.same(wt, wt2));
    h.check("C17|point.accessors", h.truth(point.channel() == channel && &point.coordinates() == &coords &&
        &point.point() == &rn));
}

template <typename T>
static void ob_initial_weights(H<T>& h)
{
    std::size_t const C = h.get("C", 3);
    T const beta = h.input("beta", 0.0, 1.0);   // beta = 0 (no adaptation) is legal
    T const minw = h.input("min", 0.0, 1.0);
    h.assume(h.lt(minw * T(C), T(1.0)));
    if (h.get("user", 1) != 0)
    {
        std::vector<bool> wz;
        std::vector<T> const w = symbolic_weights(h, C, wz);
        hep::multi_channel_chkpt<T> chk(w, minw, beta);
        chk.channels(C);
        std::vector<T> const got = chk.channel_weights();
        h.check("C08,C19|initial.size", h.truth(got.size() == C));
        if (got.size() != C) return;
        T s = T(), total = T();
        bool fin = true;
        for (auto const& x : got) { fin = fin && sym::isfinite(x); }
        h.check("C08,C19|initial.finite", h.truth(fin));
        if (!fin) return;
        for (auto const& x : got) s += x;
        for (auto const& x : w) total += x;
        h.check("C01,C08,C19|initial.sum_to_one", h.eq(s, T(1.0)));
        auto dis = h.truth(true);
        for (std::size_t i = 0; i != C; ++i) if (wz[i]) dis = dis && h.eq(got[i], T(0.0));
        h.check("C08,C19|initial.disabled_stay_disabled", dis);
        // normalised user weights, raised to the minimum weight before the final normalisation
        std::vector<T> c(C);
        T S2 = T();
        for (std::size_t i = 0; i != C; ++i)
        {
            c[i] = wz[i] ? T(0.0) : fmax(w[i] / total, minw);
            S2 += c[i];
        }
        auto f = h.truth(true);
        for (std::size_t i = 0; i != C; ++i) f = f && h.eq(got[i] * S2, c[i]);
        h.check("C08,C19|initial.normalised_user_weights", f);
        h.check("C19|initial.parameters_kept", h.eq(chk.beta(), beta) && h.eq(chk.min_weight(), minw));
    }
    else
    {
        hep::multi_channel_chkpt<T> chk(minw, beta);
        chk.channels(C);
        std::vector<T> const got = chk.channel_weights();
        auto f = h.truth(got.size() == C);
        for (std::size_t i = 0; i != got.size(); ++i) f = f && h.eq(got[i] * T(C), T(1.0));
        h.check("C08,C19|initial.uniform_default", f);
    }
}

template <typename T>
static void body(H<T>& h)
{
    switch (h.get("ob", 0))
    {
    case 0: ob_refine_weights(h); break;
    case 1: ob_discrete(h); break;
    case 2: ob_point_weight(h); break;
    case 3: ob_initial_weights(h); break;
    }
}

VERIF_MAIN("mc_kernels", body)
