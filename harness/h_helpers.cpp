// Route S harness: combination helpers (C13, and the combination rule C12 relies on)
//   ob=0 weighted_with_variance, ob=1 weighted_equally, ob=2 chi_square_dof, ob=3 distributions, ob=4 create_result
//   cfg: m = number of results; big=1 uses call counts of 2e9 (sums beyond 2^32)
#include "harness.hpp"

#include "hep/mc/mc_helper.hpp"
#include "hep/mc/mc_result.hpp"
#include "hep/mc/plain_result.hpp"

#include <algorithm>
#include <vector>

using sym::H;
using std::fmax;
using sym::fmax;
using std::fmin;
using sym::fmin;

template <typename T>
struct item
{
    std::size_t calls, nz, fin;
    T E, S;       // estimate and error (S > 0) if nz > 0, else both zero
    bool empty;   // no non-zero calls
};

template <typename T>
static std::vector<item<T>> symbolic_items(H<T>& h, std::size_t m, bool allow_empty)
{
    static std::size_t const small_calls[] = {2, 3, 5, 7};
    bool const big = h.get("big", 0) != 0;
    std::vector<item<T>> v;
    for (std::size_t i = 0; i != m; ++i)
    {
        item<T> it;
        it.calls = big ? (2000000000ull + 7 * i) : small_calls[i % 4];
        it.empty = allow_empty ? (h.choose("result_without_non_zero_calls", 2) == 1) : false;
        if (it.empty)
        {
            it.nz = 0; it.fin = 0; it.E = T(0.0); it.S = T(0.0);
        }
        else
        {
            it.nz = it.calls - 1; it.fin = it.calls - 1 - (i % 2);
            it.E = h.input("E", -1e6, 1e6);
            it.S = h.input("S", 0.0, 1e6, true, false);
        }
        v.push_back(it);
    }
    return v;
}

template <typename T>
static std::vector<hep::mc_result<T>> make_results(std::vector<item<T>> const& items)
{
    std::vector<hep::mc_result<T>> r;
    for (auto const& it : items) r.push_back(hep::create_result<T>(it.calls, it.nz, it.fin, it.E, it.S));
    return r;
}

template <typename T>
static void ob_weighted(H<T>& h)
{
    using sym::isfinite;
    using std::isfinite;
    std::size_t const m = h.get("m", 3);
    auto const items = symbolic_items<T>(h, m, true);
    auto const results = make_results<T>(items);
    hep::mc_result<T> const c = hep::accumulate<hep::weighted_with_variance>(results.begin(), results.end());

    std::size_t calls = 0, nz = 0, fin = 0, used = 0;
    T isum = T(), esum = T();
    for (auto const& it : items)
    {
        calls += it.calls; nz += it.nz; fin += it.fin;
        if (!it.empty) { ++used; isum += T(1.0) / (it.S * it.S); esum += it.E / (it.S * it.S); }
    }
    h.check("C13|weighted.counters_are_summed", h.truth(c.calls() == calls && c.non_zero_calls() == nz && c.finite_calls() == fin));
    if (used == 0) return;
    T const E = c.value();
    T const S = c.error();
    h.check("C12,C13|weighted.estimate_and_error_finite_when_some_result_has_non_zero_calls", h.finite(E) && h.finite(S));
    if (!isfinite(E) || !isfinite(S)) return;
    h.check("C12,C13|weighted.estimate_is_inverse_variance_weighted_mean_ignoring_empty_results", h.eq(E * isum, esum));
    h.check("C12,C13|weighted.error_is_inverse_root_of_summed_inverse_variances", h.eq(S * S * isum, T(1.0)) && h.le(T(0.0), S));
    auto between_lo = h.truth(false), between_hi = h.truth(false), smaller = h.truth(true);
    for (auto const& it : items)
    {
        if (it.empty) continue;
        between_lo = between_lo || h.le(it.E, E);
        between_hi = between_hi || h.le(E, it.E);
        smaller = smaller && h.le(S, it.S);
    }
    h.check("C13|weighted.estimate_between_smallest_and_largest", between_lo && between_hi);
    h.check("C13|weighted.error_not_larger_than_any_single_error", smaller);

    // order independence: every permutation gives the same estimate and error
    std::vector<std::size_t> perm(m);
    for (std::size_t i = 0; i != m; ++i) perm[i] = i;
    auto inv = h.truth(true);
    while (std::next_permutation(perm.begin(), perm.end()))
    {
        std::vector<hep::mc_result<T>> pr;
        for (auto i : perm) pr.push_back(results[i]);
        hep::mc_result<T> const cp = hep::accumulate<hep::weighted_with_variance>(pr.begin(), pr.end());
        inv = inv && h.eq(cp.value(), E) && h.eq(cp.error() * cp.error(), S * S) && h.truth(cp.calls() == calls);
    }
    h.check("C13|weighted.independent_of_the_order_of_the_results", inv);
}

template <typename T>
static void ob_equal(H<T>& h)
{
    std::size_t const m = h.get("m", 3);
    auto const items = symbolic_items<T>(h, m, false);
    auto const results = make_results<T>(items);
    hep::mc_result<T> const c = hep::accumulate<hep::weighted_equally>(results.begin(), results.end());
    std::size_t calls = 0, nz = 0, fin = 0;
    T sum = T();
    for (auto const& it : items) { calls += it.calls; nz += it.nz; fin += it.fin; sum += it.E; }
    h.check("C13|equal.counters_are_summed", h.truth(c.calls() == calls && c.non_zero_calls() == nz && c.finite_calls() == fin));
    if (m == 0)
    {
        h.check("C13|equal.no_results_give_the_empty_result", h.eq(c.sum(), T(0.0)) && h.eq(c.sum_of_squares(), T(0.0)));
        return;
    }
    if (m == 1)
    {
        h.check("C13|equal.single_result_is_returned_unchanged", h.same(c.sum(), results[0].sum()) &&
            h.same(c.sum_of_squares(), results[0].sum_of_squares()));
        return;
    }
    T const mean = sum / T(m);
    T dev = T();
    for (auto const& it : items) dev += (it.E - mean) * (it.E - mean);
    h.check("C13|equal.estimate_is_the_mean", h.eq(c.value() * T(m), sum));
    T const S = c.error();
    h.check("C13|equal.error_is_the_standard_error_of_the_mean", h.finite(S) && h.eq(S * S * T(m) * T(m - 1), dev));
}

template <typename T>
static void ob_chi(H<T>& h)
{
    using sym::isfinite;
    using std::isfinite;
    std::size_t const m = h.get("m", 3);
    auto const items = symbolic_items<T>(h, m, false);
    auto const results = make_results<T>(items);
    T const chi = hep::chi_square_dof<hep::weighted_with_variance>(results.begin(), results.end());
    if (m == 0) { h.check("C13|chi.zero_for_no_result", h.eq(chi, T(0.0))); return; }
    if (m == 1) { h.check("C13|chi.infinite_for_one_result", h.truth(sym::isinf(chi) && chi > T(0.0))); return; }
    h.check("C13|chi.finite_and_non_negative", h.finite(chi) && h.le(T(0.0), chi));
    if (!isfinite(chi)) return;
    T isum = T(), esum = T();
    for (auto const& it : items) { isum += T(1.0) / (it.S * it.S); esum += it.E / (it.S * it.S); }
    T const E = esum / isum;
    T ref = T();
    for (auto const& it : items) ref += (it.E - E) * (it.E - E) / (it.S * it.S);
    h.check("C13|chi.documented_formula", h.eq(chi * T(m - 1), ref));
}

template <typename T>
static void ob_distributions(H<T>& h)
{
    // m plain results, each with one distribution of 2 bins: combination applies the rule per bin
    std::size_t const m = h.get("m", 2);
    std::size_t const by = h.get("by", 1), nb = 2 * by;     // by > 1: a two-dimensional distribution (2 x by bins)
    std::vector<hep::plain_result<T>> results;
    std::vector<std::vector<hep::mc_result<T>>> bins(nb);
    hep::distribution_parameters<T> params = by > 1 ? hep::distribution_parameters<T>(2, by, T(0.0), T(1.0), T(0.0), T(1.0), "d")
                                                     : hep::distribution_parameters<T>(2, T(0.0), T(1.0), "d");
    std::size_t const nd = h.get("nd", 1);
    hep::distribution_parameters<T> const params2(1, T(0.0), T(2.0), "e");
    std::vector<hep::mc_result<T>> second;
    for (std::size_t i = 0; i != m; ++i)
    {
        std::vector<hep::mc_result<T>> b;
        for (std::size_t k = 0; k != nb; ++k)
        {
            bool const empty = (k < 2) ? (h.choose("bin_without_non_zero_calls", 2) == 1) : false;
            T const E = empty ? T(0.0) : h.input("E", -1e6, 1e6);
            T const S = empty ? T(0.0) : h.input("S", 0.0, 1e6, true, false);
            b.push_back(hep::create_result<T>(3 + i, empty ? 0 : 2, empty ? 0 : 2, E, S));
            bins[k].push_back(b.back());
        }
        T const E = h.input("E", -1e6, 1e6);
        T const S = h.input("S", 0.0, 1e6, true, false);
        auto const tot = hep::create_result<T>(3 + i, 2, 1, E, S);   // one of the non-zero evaluations was not finite
        std::vector<hep::distribution_result<T>> dists{hep::distribution_result<T>(params, b)};
        if (nd > 1)
        {
            // a second distribution with a single bin
            T const E2 = h.input("E", -1e6, 1e6);
            T const S2 = h.input("S", 0.0, 1e6, true, false);
            second.push_back(hep::create_result<T>(3 + i, 2, 2, E2, S2));
            dists.emplace_back(params2, std::vector<hep::mc_result<T>>{second.back()});
        }
        results.emplace_back(dists, tot.calls(), tot.non_zero_calls(), tot.finite_calls(), tot.sum(), tot.sum_of_squares());
    }
    hep::plain_result<T> const c = hep::accumulate<hep::weighted_with_variance>(results.begin(), results.end());
    h.check("C13|distributions.kept", h.truth(c.distributions().size() == nd && c.distributions()[0].results().size() == nb &&
        c.distributions()[0].parameters().name() == "d"));
    if (c.distributions().size() != nd || c.distributions()[0].results().size() != nb) return;
    if (nd > 1)
    {
        auto const& d2 = c.distributions()[1];
        h.check("C13|distributions.every_distribution_keeps_its_own_bins_and_parameters",
            h.truth(d2.results().size() == 1 && d2.parameters().name() == "e" && d2.parameters().bins_x() == 1));
        if (d2.results().size() != 1) return;
        hep::mc_result<T> const ref2 = hep::accumulate<hep::weighted_with_variance>(second.begin(), second.end());
        h.check("C13|distributions.same_rule_applied_independently_to_every_bin",
            h.truth(d2.results()[0].calls() == ref2.calls() && d2.results()[0].non_zero_calls() == ref2.non_zero_calls())
            && h.eq(d2.results()[0].sum(), ref2.sum()) && h.eq(d2.results()[0].sum_of_squares(), ref2.sum_of_squares()));
    }
    for (std::size_t k = 0; k != nb; ++k)
    {
        hep::mc_result<T> const ref = hep::accumulate<hep::weighted_with_variance>(bins[k].begin(), bins[k].end());
        auto const& got = c.distributions()[0].results()[k];
        h.check("C13|distributions.same_rule_applied_independently_to_every_bin",
            h.truth(got.calls() == ref.calls() && got.non_zero_calls() == ref.non_zero_calls() && got.finite_calls() == ref.finite_calls())
            && h.eq(got.sum(), ref.sum()) && h.eq(got.sum_of_squares(), ref.sum_of_squares()));
    }
    std::vector<hep::mc_result<T>> totals(results.begin(), results.end());
    hep::mc_result<T> const ref = hep::accumulate<hep::weighted_with_variance>(totals.begin(), totals.end());
    h.check("C13|distributions.integrated_result_combined_by_the_same_rule", h.eq(c.sum(), ref.sum()) &&
        h.eq(c.sum_of_squares(), ref.sum_of_squares()) && h.truth(c.calls() == ref.calls() &&
        c.non_zero_calls() == ref.non_zero_calls() && c.finite_calls() == ref.finite_calls() && c.non_zero_calls() == 2 * m && c.finite_calls() == m));
}

template <typename T>
static void ob_create(H<T>& h)
{
    bool const big = h.get("big", 0) != 0;
    std::size_t const N = big ? 6000000021ull : static_cast<std::size_t>(h.get("N", 5));
    T const E = h.input("E", -1e6, 1e6);
    T const S = h.input("S", 0.0, 1e6);
    auto const r = hep::create_result<T>(N, N - 1, N - 2, E, S);
    h.check("C13|create_result.counters", h.truth(r.calls() == N && r.non_zero_calls() == N - 1 && r.finite_calls() == N - 2));
    h.check("C13|create_result.value_is_the_estimate", h.eq(r.value(), E));
    h.check("C02,C13|create_result.variance_is_the_squared_error", h.eq(r.variance(), S * S));
}

template <typename T>
static void body(H<T>& h)
{
    switch (h.get("ob", 0))
    {
    case 0: ob_weighted(h); break;
    case 1: ob_equal(h); break;
    case 2: ob_chi(h); break;
    case 3: ob_distributions(h); break;
    case 4: ob_create(h); break;
    }
}

VERIF_MAIN("helpers", body)
