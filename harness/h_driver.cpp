// Route S harness: the integrator drivers with the real checkpoint classes (C03 C05 C12 C15 C19 C20 C06)
//   cfg: alg=0 plain,1 vegas,2 multi_channel; n iterations; cp = calls pattern; d,B,C; user=1 user grid /
//        weights; dist=1 one 1-d distribution; name = index of distribution name; ob = obligation
#include "driver_common.hpp"

// the parameters a checkpoint header holds (alpha; beta and the minimum weight) are not whole numbers
template <typename T>
static sym::cond<T> fractional_parameters(H<T>& h, world<T>& w)
{
    auto in = [&](T const& x) { return h.lt(T(0.0625), x) && h.lt(x, T(0.9375)); };
    return in(w.alpha) && in(w.beta) && in(w.minw);
}

// ---- ob 0: resume == never stopping (C03), lossless text (C05) ---------------------------------------
template <typename T, typename A>
static void ob_resume(H<T>& h)
{
    world<T> w(h);
    std::size_t const n = h.get("n", 2);
    auto const calls = calls_pattern(h.get("cp", 1), n);
    A::params(w);
    typename A::chk const base = A::fresh(w);

    typename A::chk const full = A::run(w, calls, base, always_true<typename A::chk>());
    std::string const text_full = ser(full);
    h.check("C03,C05|text.numbers_written_in_a_format_that_keeps_max_digits10_digits", h.truth(all_numbers_well_formatted<T>(text_full)));

    // C05: the text of the empty and of the final checkpoint read back field by field
    {
        bool ok = false;
        std::string const t0 = ser(base);
        // (asserted for parameters that are not whole numbers, so that a counterexample shows in the replayed text)
        h.check("C03,C05|text.numbers_of_the_empty_checkpoint_written_in_a_format_that_keeps_max_digits10_digits",
            !fractional_parameters<T>(h, w) || h.truth(all_numbers_well_formatted<T>(t0)));
        auto const b2 = reload<T, A>(h, t0, "empty_checkpoint", ok);
        h.check("C05|empty_checkpoint.read_back_completely_with_identical_fields_and_text",
            ok ? (same_chk<T>(h, base, b2) && texts_identical<T>(h, t0, ser(b2))) : h.truth(false));
        auto const f2 = reload<T, A>(h, text_full, "final_checkpoint", ok);
        h.check("C05|final_checkpoint.read_back_completely_with_identical_fields_and_text",
            ok ? (same_chk<T>(h, full, f2) && texts_identical<T>(h, text_full, ser(f2))) : h.truth(false));
    }

    // C03: every non-empty subset of the n-1 boundaries (and the boundary before the first iteration)
    std::size_t const masks = std::size_t(1) << n;   // bit i set: interrupt before iteration i (bit 0: reload the empty checkpoint)
    for (std::size_t mask = 1; mask < masks; ++mask)
    {
        typename A::chk cur = base;
        bool ok = true;
        std::size_t i = 0;
        while (i < n && ok)
        {
            if (mask & (std::size_t(1) << i))
            {
                cur = reload<T, A>(h, ser(cur), "interrupted_checkpoint", ok);
                if (!ok) break;
            }
            std::size_t j = i + 1;
            while (j < n && !(mask & (std::size_t(1) << j))) ++j;
            std::vector<std::size_t> seg(calls.begin() + i, calls.begin() + j);
            cur = A::run(w, seg, cur, always_true<typename A::chk>());
            i = j;
        }
        h.check("C03|resume.final_text_identical_to_uninterrupted_run",
            ok ? texts_identical<T>(h, text_full, ser(cur)) : h.truth(false));
    }
}

// ---- ob 10: resume with the built-in callback and a target precision (early stop) (C03, C12) -----------
template <typename T, typename A>
static void ob_resume_with_target(H<T>& h)
{
    world<T> w(h);
    std::size_t const n = h.get("n", 2);
    auto const calls = calls_pattern(h.get("cp", 3), n);
    A::params(w);
    T const target = w.h.input("target", 0.0, 1.0, true, false);
    typename A::chk const base = A::fresh(w);
    typename A::chk const full = A::run(w, calls, base, hep::callback<typename A::chk>(hep::callback_mode::silent, "", target));
    std::string const text_full = ser(full);
    for (std::size_t mask = 1; mask < (std::size_t(1) << n); ++mask)
    {
        if (mask & 1) continue;   // interruption points between iterations only
        typename A::chk cur = base;
        bool ok = true, stopped = false;
        std::size_t i = 0;
        while (i < n && ok && !stopped)
        {
            if (mask & (std::size_t(1) << i))
            {
                cur = reload<T, A>(h, ser(cur), "interrupted_checkpoint", ok);
                if (!ok) break;
            }
            std::size_t j = i + 1;
            while (j < n && !(mask & (std::size_t(1) << j))) ++j;
            std::vector<std::size_t> seg(calls.begin() + i, calls.begin() + j);
            // every resumption uses a newly constructed callback, as a restarted program does; its last answer tells
            // whether the target was reached (then there is nothing left to resume)
            bool last_answer = true;
            struct recording
            {
                hep::callback<typename A::chk> inner; bool* last;
                bool operator()(typename A::chk const& c) { *last = inner(c); return *last; }
            };
            cur = A::run(w, seg, cur, recording{hep::callback<typename A::chk>(hep::callback_mode::silent, "", target), &last_answer});
            stopped = !last_answer;
            i = j;
        }
        h.check("C03,C12|resume.with_target_precision_final_text_identical_to_uninterrupted_run",
            ok ? texts_identical<T>(h, text_full, ser(cur)) : h.truth(false));
    }
}

// ---- ob 3: rollback (C15) -------------------------------------------------------------------------
template <typename T, typename A>
static void ob_rollback(H<T>& h)
{
    world<T> w(h);
    std::size_t const n = h.get("n", 2);
    bool const via_text = h.get("text", 0) != 0;
    auto const calls = calls_pattern(h.get("cp", 1), n);
    A::params(w);
    typename A::chk const base = A::fresh(w);
    typename A::chk full = A::run(w, calls, base, always_true<typename A::chk>());
    std::string const text_full = ser(full);
    if (via_text)
    {
        bool ok = false;
        full = reload<T, A>(h, text_full, "checkpoint", ok);
        h.check("C15|rollback.checkpoint_read_back_from_text", h.truth(ok));
        if (!ok) return;
    }
    if (h.get("hist", 0) != 0 && n >= 2)
    {
        // history: run(1); write + read; resume(n-1); rollback(k)
        std::vector<std::size_t> first(calls.begin(), calls.begin() + 1), rest(calls.begin() + 1, calls.end());
        typename A::chk part = A::run(w, first, base, always_true<typename A::chk>());
        bool ok = false;
        typename A::chk re = reload<T, A>(h, ser(part), "checkpoint", ok);
        h.check("C15|rollback.checkpoint_read_back_from_text", h.truth(ok));
        if (!ok) return;
        full = A::run(w, rest, re, always_true<typename A::chk>());
        h.check("C15|rollback.resumed_run_equals_the_uninterrupted_one", texts_identical<T>(h, text_full, ser(full)));
    }
    bool const only_other = h.get("other", 0) != 0;
    // two successive rollbacks on the same object equal the single rollback to the smaller iteration
    for (std::size_t k1 = 0; k1 <= n && !only_other; ++k1)
    {
        for (std::size_t k2 = 0; k2 <= k1; ++k2)
        {
            typename A::chk twice = full, once = full;
            bool threw = false;
            try { twice.rollback(k1); twice.rollback(k2); once.rollback(k2); }
            catch (std::out_of_range const&) { threw = true; }
            h.check("C15,C19|rollback.successive_rollbacks_equal_the_single_rollback",
                threw ? h.truth(false) : texts_identical<T>(h, ser(once), ser(twice)));
        }
    }
    for (std::size_t k = 0; k <= n + 1 && !only_other; ++k)
    {
        typename A::chk c = full;
        bool threw = false;
        try { c.rollback(k); }
        catch (std::out_of_range const&) { threw = true; }
        if (k > n)
        {
            h.check("C15|rollback.beyond_the_last_iteration_is_rejected", h.truth(threw));
            continue;
        }
        h.check("C15|rollback.within_range_is_accepted", h.truth(!threw));
        if (threw) continue;
        // reference: the run that performed only the first k iterations
        std::vector<std::size_t> first(calls.begin(), calls.begin() + k);
        typename A::chk const ref = A::run(w, first, base, always_true<typename A::chk>());
        std::string const ref_text = ser(ref);
        std::string const got = ser(c);
        h.check(k == n ? "C15|rollback.to_n_changes_nothing" : "C15|rollback.serialises_like_the_run_that_stopped_after_k",
            texts_identical<T>(h, ref_text, got));
        // resuming reproduces the remaining iterations
        std::vector<std::size_t> rest(calls.begin() + k, calls.end());
        typename A::chk const resumed = A::run(w, rest, c, always_true<typename A::chk>());
        h.check("C15|rollback.resuming_reproduces_the_original_run", texts_identical<T>(h, text_full, ser(resumed)));
    }
    if (h.get("other", 0) != 0)
    {
        // after a rollback the discarded iterations leave no trace: continuing with ANOTHER integrand for two
        // iterations gives what the run that stopped after k gives when continued the same way, and every
        // iteration uses the refinement of the result before it
        std::vector<std::size_t> const two{2, 1};
        for (std::size_t k = 0; k < n; ++k)
        {
            typename A::chk c = full;
            c.rollback(k);
            std::vector<std::size_t> first(calls.begin(), calls.begin() + k);
            w.tab.epoch = 0;
            typename A::chk const ref = A::run(w, first, base, always_true<typename A::chk>());
            w.tab.epoch = k + 1;
            typename A::chk const cont_ref = A::run(w, two, ref, always_true<typename A::chk>());
            typename A::chk const cont = A::run(w, two, c, always_true<typename A::chk>());
            w.tab.epoch = 0;
            h.check("C15,C07,C08|rollback.continuing_with_another_integrand_equals_continuing_the_run_that_stopped_after_k",
                texts_identical<T>(h, ser(cont_ref), ser(cont)));
            state_checks<T>(h, w, cont, ".after_rollback");
        }
    }
}


// ---- ob 4: iteration order and stop rule with an arbitrary callback (C12) ---------------------------
template <typename T, typename Chk>
struct scripted_callback
{
    H<T>* h;
    sym::run_log<T>* log;
    std::vector<std::size_t>* seen_results;       // results().size() at each invocation
    std::vector<std::size_t>* seen_calls;         // integrand calls performed so far at each invocation
    std::vector<bool>* answers;
    std::string* last_text;
    bool operator()(Chk const& c) const
    {
        seen_results->push_back(c.results().size());
        seen_calls->push_back(log->calls.size());
        *last_text = ser(c);
        bool const more = h->choose("callback_returns", 2) == 0;
        answers->push_back(more);
        return more;
    }
};

template <typename T, typename A>
static void ob_order(H<T>& h)
{
    world<T> w(h);
    std::size_t const n = h.get("n", 3);
    auto const calls = calls_pattern(h.get("cp", 1), n);
    A::params(w);
    typename A::chk const base = A::fresh(w);
    std::vector<std::size_t> seen_results, seen_calls;
    std::vector<bool> answers;
    std::string last_text;
    scripted_callback<T, typename A::chk> cb{&h, &w.log, &seen_results, &seen_calls, &answers, &last_text};
    typename A::chk const out = A::run(w, calls, base, cb);

    std::size_t expected = n;
    for (std::size_t k = 0; k != answers.size(); ++k) if (!answers[k]) { expected = k + 1; break; }
    h.check("C12|order.callback_once_after_each_iteration_and_stop_at_first_false",
        h.truth(answers.size() == expected && out.results().size() == expected));
    bool ok = true;
    std::size_t total = 0;
    for (std::size_t k = 0; k != seen_results.size() && k < n; ++k)
    {
        total += calls[k];
        ok = ok && seen_results[k] == k + 1 && seen_calls[k] == total;
    }
    h.check("C12|order.callback_sees_exactly_the_results_so_far_after_the_iteration_ran", h.truth(ok));
    bool in_order = out.results().size() <= n;
    for (std::size_t k = 0; k != out.results().size() && k < n; ++k) in_order = in_order && out.results()[k].calls() == calls[k];
    h.check("C12|order.iterations_in_the_requested_order", h.truth(in_order));
    h.check("C12|order.returned_checkpoint_is_the_one_the_last_callback_saw", texts_identical<T>(h, last_text, ser(out)));
}

// reference: variance weighted combination of the first k results; reached iff rel. error <= target
template <typename T, typename R>
static bool reference_reached(std::vector<R> const& results, std::size_t k, T const& target)
{
    using std::sqrt;
    using sym::sqrt;
    using std::fabs;
    using sym::fabs;
    T isum = T(), esum = T();
    std::size_t nz = 0;
    for (std::size_t i = 0; i != k; ++i)
    {
        auto const& r = results[i];
        nz += r.non_zero_calls();
        if (r.non_zero_calls() != 0)
        {
            T const iv = T(1.0) / r.variance();
            isum += iv;
            esum += iv * r.value();
        }
    }
    T var = isum, est = esum;
    if (nz != 0) { var = T(1.0) / isum; est = esum * var; }
    T const rel = sqrt(var) / fabs(est);
    return rel <= target;   // false for NaN
}

// ---- ob 5: built-in callback, stop rule (C12) -------------------------------------------------------
template <typename T, typename A>
static void ob_builtin_stop(H<T>& h)
{
    using std::sqrt;
    using sym::sqrt;
    using std::fabs;
    using sym::fabs;
    using std::isfinite;
    using sym::isfinite;
    world<T> w(h);
    std::size_t const n = h.get("n", 2);
    auto const calls = calls_pattern(h.get("cp", 3), n);
    bool const zero_target = h.get("t0", 0) != 0;
    A::params(w);
    T const target = zero_target ? T(0.0) : w.h.input("target", 0.0, 1.0, true, false);
    typename A::chk const base = A::fresh(w);
    hep::callback<typename A::chk> cb(hep::callback_mode::silent, "", target);
    if (h.get("used", 0) != 0 && n >= 2)
    {
        // the decision depends only on the checkpoint handed over (and the target), not on earlier invocations: a newly
        // constructed callback (as after a restart) and one that has seen the earlier iterations agree
        std::vector<std::size_t> first(calls.begin(), calls.begin() + 1), rest(calls.begin() + 1, calls.end());
        typename A::chk const c1 = A::run(w, first, base, always_true<typename A::chk>());
        typename A::chk const c2 = A::run(w, rest, c1, always_true<typename A::chk>());
        hep::callback<typename A::chk> fresh(hep::callback_mode::silent, "", target), used_cb(hep::callback_mode::silent, "", target);
        bool const a = fresh(c2);
        (void) used_cb(c1);
        bool const b = used_cb(c2);
        h.check("C03,C12|builtin.decision_depends_only_on_the_checkpoint_handed_over", h.truth(a == b));
        if (!zero_target)
            h.check("C12|builtin.stops_iff_relative_error_of_combination_not_larger_than_target",
                h.truth(a == !reference_reached<T>(c2.results(), c2.results().size(), target)));
        return;
    }
    if (h.get("unit", 0) != 0)
    {
        // unit form: run n iterations with a callback that never stops, then ask the built-in callback
        typename A::chk const out = A::run(w, calls, base, always_true<typename A::chk>());
        bool const more = cb(out);
        if (zero_target)
        {
            h.check("C12|builtin.zero_target_never_ends_a_run_early", h.truth(more));
            return;
        }
        h.check("C12|builtin.stops_iff_relative_error_of_combination_not_larger_than_target",
            h.truth(more == !reference_reached<T>(out.results(), out.results().size(), target)));
        return;
    }
    typename A::chk const out = A::run(w, calls, base, cb);
    std::size_t const performed = out.results().size();
    h.check("C12|builtin.at_least_one_at_most_n_iterations", h.truth(performed >= 1 && performed <= n));
    if (performed < 1 || performed > n) return;
    if (zero_target)
    {
        h.check("C12|builtin.zero_target_never_ends_a_run_early", h.truth(performed == n));
        return;
    }
    for (std::size_t k = 1; k <= performed; ++k)
    {
        bool const reached = reference_reached<T>(out.results(), k, target);
        if (k < performed)
            h.check("C12|builtin.does_not_stop_before_the_target_is_reached", h.truth(!reached));
        else if (performed < n)
            h.check("C12|builtin.stops_only_when_the_target_is_reached", h.truth(reached));
        else
            h.check("C12|builtin.ran_all_iterations", h.truth(true));
    }
}

// ---- ob 6: the four callback modes are equivalent; printing terminates (C20, C03 file) -------------------
struct cout_silencer
{
    std::streambuf* old;
    std::ostringstream sink;
    cout_silencer() : old(std::cout.rdbuf(sink.rdbuf())) {}
    ~cout_silencer() { std::cout.rdbuf(old); }
};

template <typename T, typename A>
static void ob_modes(H<T>& h)
{
    world<T> w(h);
    std::size_t const n = h.get("n", 2);
    auto const calls = calls_pattern(h.get("cp", 3), n);
    A::params(w);
    T const target = h.get("t0", 1) != 0 ? T(0.0) : w.h.input("target", 0.0, 1.0, true, false);
    typename A::chk const base = A::fresh(w);
    std::string const file = "out/tmp_chk_" + std::to_string(::getpid()) + ".txt";
    hep::callback_mode const modes[4] = {hep::callback_mode::silent, hep::callback_mode::silent_and_write_chkpt,
        hep::callback_mode::verbose, hep::callback_mode::verbose_and_write_chkpt};
    std::string texts[4];
    std::string printed[4];
    for (int m = 0; m != 4; ++m)
    {
        std::remove(file.c_str());
        cout_silencer quiet;
        hep::callback<typename A::chk> cb(modes[m], file, target);
        typename A::chk const out = A::run(w, calls, base, cb);
        texts[m] = ser(out);
        printed[m] = quiet.sink.str();
        if (m == 1 || m == 3)
        {
            std::ifstream in(file);
            std::stringstream ss;
            ss << in.rdbuf();
            h.check("C03,C20|modes.file_holds_the_text_of_the_returned_checkpoint", texts_identical<T>(h, texts[m], ss.str()));
            // resuming from the file: run the remaining iterations (if any) and compare with the full run
            if (out.results().size() < n || true)
            {
                std::ifstream in2(file);
                typename A::chk from_file = A::load(in2);
                h.check("C03|modes.file_reads_back_to_the_same_checkpoint", texts_identical<T>(h, texts[m], ser(from_file)));
            }
        }
    }
    std::remove(file.c_str());
    if (h.get("unit", 0) != 0)
    {
        // the answer (continue / stop) for a given checkpoint is the same in all four modes, for any target
        T const t2 = w.h.input("target", 0.0, 1.0, true, false);
        typename A::chk const one = A::run(w, std::vector<std::size_t>(calls.begin(), calls.begin() + 1), base, always_true<typename A::chk>());
        bool answers[4];
        for (int m = 0; m != 4; ++m)
        {
            cout_silencer quiet;
            hep::callback<typename A::chk> cb(modes[m], file, t2);
            answers[m] = cb(one);
        }
        std::remove(file.c_str());
        std::remove((file + ".tmp").c_str());
        h.check("C20|modes.decision_identical_in_all_four_modes", h.truth(answers[0] == answers[1] && answers[1] == answers[2] && answers[2] == answers[3]));
    }
    for (int m = 1; m != 4; ++m)
        h.check("C20|modes.returned_checkpoint_identical_in_all_four_modes", texts_identical<T>(h, texts[0], texts[m]));
    h.check("C20|modes.silent_modes_print_nothing", h.truth(printed[0].empty() && printed[1].empty()));
    h.check("C20|modes.verbose_modes_print_one_block_per_iteration", h.truth(!printed[2].empty() && std::count(printed[2].begin(), printed[2].end(), '\n') ==
            std::count(printed[3].begin(), printed[3].end(), '\n')));
}

template <typename T, typename A>
static void ob_state(H<T>& h)
{
    world<T> w(h);
    std::size_t const n = h.get("n", 2);
    auto const calls = calls_pattern(h.get("cp", 1), n);
    A::params(w);
    typename A::chk const base = A::fresh(w);
    typename A::chk const full = A::run(w, calls, base, always_true<typename A::chk>());
    state_checks<T>(h, w, full, "[uninterrupted]");
    // started from the text of the checkpoint that has no results yet
    {
        bool ok = false;
        typename A::chk re = reload<T, A>(h, ser(base), "empty checkpoint", ok);
        h.check("C19|state.empty_checkpoint_read_back", h.truth(ok));
        if (ok)
        {
            typename A::chk const fin = A::run(w, calls, re, always_true<typename A::chk>());
            state_checks<T>(h, w, fin, "[started from text]");
        }
    }
    // resumed from text after the first iteration
    if (n >= 2)
    {
        std::vector<std::size_t> first(calls.begin(), calls.begin() + 1), rest(calls.begin() + 1, calls.end());
        typename A::chk part = A::run(w, first, base, always_true<typename A::chk>());
        bool ok = false;
        typename A::chk re = reload<T, A>(h, ser(part), "checkpoint", ok);
        h.check("C19|state.checkpoint_read_back", h.truth(ok));
        if (ok)
        {
            typename A::chk const fin = A::run(w, rest, re, always_true<typename A::chk>());
            state_checks<T>(h, w, fin, "[resumed]");
        }
    }
}

// ---- ob 8: non-finite evaluations vs the same points returning zero, several adaptive iterations (C06) ----
template <typename T, typename R>
static sym::cond<T> same_but_counters(H<T>& h, R const& a, R const& b, std::size_t& poisoned)
{
    // a: poisoned run, b: sanitised run
    auto c = h.truth(a.calls() == b.calls() && a.finite_calls() == b.finite_calls() && a.non_zero_calls() >= b.non_zero_calls())
        && h.same(a.sum(), b.sum()) && h.same(a.sum_of_squares(), b.sum_of_squares())
        && h.finite(a.sum()) && h.finite(a.sum_of_squares());
    poisoned += a.non_zero_calls() - b.non_zero_calls();
    c = c && h.truth(a.distributions().size() == b.distributions().size());
    for (std::size_t i = 0; i != a.distributions().size() && i != b.distributions().size(); ++i)
    {
        auto const& ra = a.distributions()[i].results();
        auto const& rb = b.distributions()[i].results();
        c = c && h.truth(ra.size() == rb.size());
        for (std::size_t k = 0; k != ra.size() && k != rb.size(); ++k)
            c = c && h.same(ra[k].sum(), rb[k].sum()) && h.same(ra[k].sum_of_squares(), rb[k].sum_of_squares())
                && h.finite(ra[k].sum()) && h.finite(ra[k].sum_of_squares());   // counters aside
    }
    return c;
}

template <typename T>
static sym::cond<T> adaptive_same(H<T>& h, typename plain_alg<T>::chk const&, typename plain_alg<T>::chk const&) { return h.truth(true); }
template <typename T>
static sym::cond<T> adaptive_same(H<T>& h, typename vegas_alg<T>::chk const& a, typename vegas_alg<T>::chk const& b)
{
    auto c = h.truth(true);
    for (std::size_t i = 0; i != a.results().size() && i != b.results().size(); ++i)
    {
        c = c && same_pdf<T>(h, a.results()[i].pdf(), b.results()[i].pdf())
            && same_vec<T>(h, a.results()[i].adjustment_data(), b.results()[i].adjustment_data());
        for (auto const& x : a.results()[i].adjustment_data()) c = c && h.finite(x);
    }
    return c && same_pdf<T>(h, a.pdf(), b.pdf());
}
template <typename T>
static sym::cond<T> adaptive_same(H<T>& h, typename multi_alg<T>::chk const& a, typename multi_alg<T>::chk const& b)
{
    auto c = h.truth(true);
    for (std::size_t i = 0; i != a.results().size() && i != b.results().size(); ++i)
    {
        c = c && same_vec<T>(h, a.results()[i].channel_weights(), b.results()[i].channel_weights())
            && same_vec<T>(h, a.results()[i].adjustment_data(), b.results()[i].adjustment_data());
        for (auto const& x : a.results()[i].adjustment_data()) c = c && h.finite(x);
        for (auto const& x : a.results()[i].channel_weights()) c = c && h.finite(x);
    }
    return c && same_vec<T>(h, a.channel_weights(), b.channel_weights());
}

template <typename T, typename A>
static void ob_poison(H<T>& h)
{
    world<T> w(h);
    std::size_t const n = h.get("n", 2);
    auto const calls = calls_pattern(h.get("cp", 0), n);
    A::params(w);
    typename A::chk const base = A::fresh(w);
    w.f.sanitize = false;
    typename A::chk const a = A::run(w, calls, base, always_true<typename A::chk>());
    std::size_t poisoned_calls = 0;
    for (auto const& c : w.log.calls)
        if (c.f_kind == sym::V_NAN || c.f_kind == sym::V_PINF || c.f_kind == sym::V_NINF) ++poisoned_calls;
    w.f.sanitize = true;
    typename A::chk const b = A::run(w, calls, base, always_true<typename A::chk>());
    w.f.sanitize = false;
    h.check("C06|poison.same_number_of_iterations", h.truth(a.results().size() == b.results().size() && a.generator() == b.generator()));
    auto c = h.truth(true);
    std::size_t poisoned = 0;
    for (std::size_t i = 0; i != a.results().size() && i != b.results().size(); ++i)
        c = c && same_but_counters<T>(h, a.results()[i], b.results()[i], poisoned);
    h.check("C06|poison.results_identical_to_the_run_in_which_the_same_points_returned_zero", c);
    h.check("C06|poison.non_finite_evaluations_counted_as_non_zero_only", h.truth(poisoned == poisoned_calls));
    h.check("C06|poison.adaptation_identical_and_finite_in_all_later_iterations", adaptive_same<T>(h, a, b));

    // what a user reports for a bin: the variance weighted combination over the iterations.  It is finite whenever every
    // iteration that put a finite value into the bin has a positive variance there (iterations that only saw non-finite
    // values for the bin must not take part)
    if (!a.results().empty() && !a.results()[0].distributions().empty())
    {
        auto const comb = hep::accumulate<hep::weighted_with_variance>(a.results().begin(), a.results().end());
        auto ok = h.truth(true);
        for (std::size_t i = 0; i != comb.distributions().size(); ++i)
        {
            auto const& bins = comb.distributions()[i].results();
            for (std::size_t k = 0; k != bins.size(); ++k)
            {
                auto premise = h.truth(true);
                for (auto const& r : a.results())
                {
                    auto const& bin = r.distributions()[i].results()[k];
                    if (bin.finite_calls() == 0 || bin.calls() < 2) continue;
                    premise = premise && h.lt(T(0.0), bin.variance());
                }
                bool usable = true;
                for (auto const& r : a.results()) if (r.distributions()[i].results()[k].calls() < 2) usable = false;
                if (!usable) continue;
                ok = ok && (!premise || (h.finite(bins[k].value()) && h.finite(bins[k].error())));
            }
        }
        h.check("C06|poison.combined_bins_stay_finite_when_the_finite_contributions_have_positive_variance", ok);
    }
}


// ---- ob 9: weight summary printing for many channels (C20): terminates without error --------------------
template <typename T>
static void summary_case(H<T>& h, std::size_t C, std::size_t z, std::size_t rot)
{
    // z channels are disabled (weight zero)
    h.event("channels " + std::to_string(C) + " disabled " + std::to_string(z) + " rotation " + std::to_string(rot));
    std::size_t const calls = 1000;
    sym::E().conv_cap = 1024;
    std::vector<T> w(C), adj(C);
    // the subject is the index arithmetic of the summary, which depends on the number of channels and on the size
    // of the minimal-weight group only: enabled channels get the concrete weights 1 : 2 : 3 : ... (normalised)
    std::size_t const k = C - z;
    for (std::size_t i = 0; i != C; ++i)
    {
        if (i < z) { w[i] = T(0.0); adj[i] = T(0.0); continue; }
        w[i] = T(2.0 * static_cast<double>(i - z + 1)) / T(static_cast<double>(k * (k + 1)));
        adj[i] = h.input("W", 0.0, 1e6);
    }
    // rotate so that the disabled channels are not simply the first ones
    std::rotate(w.begin(), w.begin() + (rot % C), w.end());
    std::rotate(adj.begin(), adj.begin() + (rot % C), adj.end());
    hep::plain_result<T> pr(std::vector<hep::distribution_result<T>>{}, calls, calls - 1, calls - 1, T(1.0), T(2.0));
    hep::multi_channel_result<T> r(pr, adj, w);
    auto chk = hep::make_multi_channel_chkpt<T>(T(0.0), T(0.25), sym::stub_engine());
    chk.add(r, sym::stub_engine());
    std::ostringstream out;
    hep::multi_channel_summary(chk, out);     // an exception or failed assertion here is reported by the engine
    std::string const text = out.str();
    h.check("C20|summary.prints_without_error_for_many_channels", h.truth(!text.empty() && text.find("summary of a-priori weights") == 0));
    hep::multi_channel_weight_info<T> info(r);
    bool sorted = info.channels().size() == C && info.weights().size() == C && info.calls().size() == C &&
        info.minimal_weight_count() >= 1 && info.minimal_weight_count() <= C;
    h.check("C20|summary.weight_info_consistent", h.truth(sorted));
    if (!sorted) return;
    auto nondecreasing = h.truth(true);
    for (std::size_t i = 0; i + 1 < C; ++i) nondecreasing = nondecreasing && h.le(info.weights()[i], info.weights()[i + 1]);
    h.check("C20|summary.channels_sorted_by_weight", nondecreasing);
    h.check("C20|summary.minimal_group_is_the_disabled_channels", h.truth(z == 0 || info.minimal_weight_count() == z));
}

template <typename T>
static void ob_summary(H<T>& h)
{
    std::size_t const lo = h.get("Cmin", 1), hi = h.get("Cmax", 14);
    for (std::size_t C = lo; C <= hi; ++C)
        for (std::size_t z = 0; z < C; ++z)
            for (std::size_t rot : {std::size_t(0), std::size_t(1), C / 2})
                summary_case<T>(h, C, z, rot);
}

// ---- dispatch ------------------------------------------------------------------------------------
template <typename T, typename A>
static void by_ob(H<T>& h)
{
    switch (h.get("ob", 0))
    {
    case 0: ob_resume<T, A>(h); break;
    case 3: ob_rollback<T, A>(h); break;
    case 4: ob_order<T, A>(h); break;
    case 5: ob_builtin_stop<T, A>(h); break;
    case 6: ob_modes<T, A>(h); break;
    case 7: ob_state<T, A>(h); break;
    case 8: ob_poison<T, A>(h); break;
    case 10: ob_resume_with_target<T, A>(h); break;
    }
}

// ---- ob 11: the checkpoint object driven directly (add / pdf or channel_weights / rollback), one adaptive step from a
// state with a discarded iteration (C07 C08 C15 C19): what was rolled back leaves no trace in the next grid / weights
// a checkpoint without results (fresh, or emptied by rollback(0)): rollback(0) is accepted and changes nothing,
// rollback(k >= 1) is rejected; its text keeps every number
template <typename T, typename C>
static void object_empty_checks(H<T>& h, world<T>& w, C const& c)
{
    std::string const before = ser(c);
    h.check("C03,C05|object.numbers_of_a_checkpoint_emptied_by_rollback_written_in_a_format_that_keeps_max_digits10_digits",
        !fractional_parameters<T>(h, w) || h.truth(all_numbers_well_formatted<T>(before)));
    for (std::size_t k = 0; k != 3; ++k)
    {
        C copy = c;
        bool threw = false;
        try { copy.rollback(k); }
        catch (std::out_of_range const&) { threw = true; }
        if (k == 0)
            h.check("C15|object.rollback_zero_of_an_empty_checkpoint_changes_nothing", threw ? h.truth(false) : texts_identical<T>(h, before, ser(copy)));
        else
            h.check("C15|object.rollback_beyond_the_last_iteration_of_an_empty_checkpoint_is_rejected", h.truth(threw));
    }
}

template <typename T>
static void ob_object_plain(H<T>& h)
{
    world<T> w(h);
    auto c = plain_alg<T>::fresh(w);
    object_empty_checks<T>(h, w, c);
    sym::stub_engine g;
    hep::plain_result<T> const pr(std::vector<hep::distribution_result<T>>(), 2, 2, 2, h.input("sum", -1e6, 1e6), h.input("sumsq", 0.0, 1e6));
    c.add(pr, g);
    c.rollback(0);
    object_empty_checks<T>(h, w, c);
}

template <typename T>
static void ob_object_vegas(H<T>& h)
{
    world<T> w(h);
    vegas_alg<T>::params(w);
    auto c = vegas_alg<T>::fresh(w);
    c.dimensions(w.d);
    sym::stub_engine g;
    hep::vegas_pdf<T> const p0 = c.pdf();
    std::size_t const nb = w.B * w.d;
    hep::plain_result<T> const pr(std::vector<hep::distribution_result<T>>(), 2, 2, 2, T(1.0), T(1.0));
    // an iteration that saw only zeros; the next grid is asked for; then the iteration is discarded
    c.add(hep::vegas_result<T>(pr, p0, std::vector<T>(nb, T(0.0))), g);
    hep::vegas_pdf<T> const p1 = c.pdf();
    h.check("C07|object.all_zero_iteration_leaves_the_grid_as_it_was", same_pdf<T>(h, p1, p0));
    c.rollback(0);
    h.check("C15|object.rollback_to_zero_gives_the_first_grid", same_pdf<T>(h, c.pdf(), p0) && h.truth(c.results().empty()));
    object_empty_checks<T>(h, w, c);
    std::vector<T> data;
    for (std::size_t i = 0; i != nb; ++i) data.push_back(h.input("data", 0.0, 1e6));
    c.add(hep::vegas_result<T>(pr, p0, data), g);
    hep::vegas_pdf<T> const expected = hep::vegas_refine_pdf(p0, w.alpha, data);
    h.check("C07,C15,C19|object.next_grid_is_the_refinement_of_the_last_result_also_after_a_rollback", same_pdf<T>(h, c.pdf(), expected));
    // asking twice gives the same grid, and a copy behaves like the original
    auto const copy = c;
    h.check("C07,C19|object.grid_is_a_function_of_the_results", same_pdf<T>(h, c.pdf(), copy.pdf()) && same_pdf<T>(h, c.pdf(), c.pdf()));
}

template <typename T>
static void ob_object_multi(H<T>& h)
{
    world<T> w(h);
    multi_alg<T>::params(w);
    h.assume(h.lt(T(0.0), w.beta));    // beta = 0 means "no adaptation": data^0 = 1 even for an iteration of zeros (outside C08)
    auto c = multi_alg<T>::fresh(w);
    c.channels(w.C);
    sym::stub_engine g;
    std::vector<T> const w0 = c.channel_weights();
    hep::plain_result<T> const pr(std::vector<hep::distribution_result<T>>(), 2, 2, 2, T(1.0), T(1.0));
    c.add(hep::multi_channel_result<T>(pr, std::vector<T>(w.C, T(0.0)), w0), g);
    std::vector<T> const w1 = c.channel_weights();
    h.check("C08|object.all_zero_iteration_leaves_the_weights_as_they_were", same_vec<T>(h, w1, w0));
    c.rollback(0);
    h.check("C15|object.rollback_to_zero_gives_the_first_weights", same_vec<T>(h, c.channel_weights(), w0) && h.truth(c.results().empty()));
    object_empty_checks<T>(h, w, c);
    std::vector<T> data;
    for (std::size_t i = 0; i != w.C; ++i) data.push_back(h.input("data", 0.0, 1e6));
    c.add(hep::multi_channel_result<T>(pr, data, w0), g);
    std::vector<T> const expected = hep::multi_channel_refine_weights(w0, data, w.minw, w.beta);
    h.check("C08,C15,C19|object.next_weights_are_the_refinement_of_the_last_result_also_after_a_rollback",
        same_vec<T>(h, c.channel_weights(), expected));
    auto const copy = c;
    h.check("C08,C19|object.weights_are_a_function_of_the_results", same_vec<T>(h, c.channel_weights(), copy.channel_weights()));
}

template <typename T>
static void body(H<T>& h)
{
    if (h.get("ob", 0) == 9) { ob_summary<T>(h); return; }
    if (h.get("ob", 0) == 11)
    {
        if (h.get("alg", 1) == 1) ob_object_vegas<T>(h);
        else if (h.get("alg", 1) == 2) ob_object_multi<T>(h);
        else ob_object_plain<T>(h);
        return;
    }
    switch (h.get("alg", 0))
    {
    case 0: by_ob<T, plain_alg<T>>(h); break;
    case 1: by_ob<T, vegas_alg<T>>(h); break;
    case 2: by_ob<T, multi_alg<T>>(h); break;
    }
}

VERIF_MAIN("driver", body)
