// Route S harness: the real drivers and checkpoint classes with the standard random engines (C03, C05, C10).
// The engines run concretely (their outputs, state and stream operators are libstdc++'s), the numeric type is
// sym::real, so canonical numbers are exact rationals, integrand values stay symbolic.
//   cfg: e = engine (0..8), alg, n, cp
#define SYM_REAL_IS_FLOATING_POINT
#include "driver_common.hpp"

#include "hep/mc/generator_helper.hpp"

template <typename T, typename A, typename E>
static void engine_case(H<T>& h, char const* name)
{
    world<T> w(h);
    w.f.key_by_coords = true;
    std::size_t const n = h.get("n", 2);
    auto const calls = calls_pattern(h.get("cp", 1), n);
    A::params(w);
    typename A::chk const base = A::fresh(w);
    typename A::chk const full = A::run(w, calls, base, always_true<typename A::chk>());
    std::string const text_full = ser(full);
    h.event(std::string("engine ") + name);

    // C10: the stored generator is the initial one advanced by calls x numbers per call x raw draws per number
    std::size_t total = 0;
    for (auto c : calls) total += c;
    E expected = base.generator();
    expected.discard(total * A::numbers_per_call(w) * hep::random_number_usage<T, E>());
    h.check("C10|engine.generator_after_the_run_is_the_initial_one_advanced_by_calls_times_usage", h.truth(full.generator() == expected));

    // C05 / C03: the checkpoint (with the engine's own text form) reads back and resumes identically
    bool ok = false;
    typename A::chk const re = reload<T, A>(h, text_full, "checkpoint", ok);
    h.check("C03,C05|engine.checkpoint_with_generators_reads_back_identically",
        ok ? (same_chk<T>(h, full, re) && texts_identical<T>(h, text_full, ser(re))) : h.truth(false));
    if (n >= 2)
    {
        std::vector<std::size_t> first(calls.begin(), calls.begin() + 1), rest(calls.begin() + 1, calls.end());
        typename A::chk const part = A::run(w, first, base, always_true<typename A::chk>());
        bool ok2 = false;
        typename A::chk const re2 = reload<T, A>(h, ser(part), "interrupted checkpoint", ok2);
        if (ok2)
        {
            typename A::chk const fin = A::run(w, rest, re2, always_true<typename A::chk>());
            h.check("C03|engine.resume_through_text_identical_to_uninterrupted_run", texts_identical<T>(h, text_full, ser(fin)));
        }
        else h.check("C03|engine.resume_through_text_identical_to_uninterrupted_run", h.truth(false));
    }
}

template <typename T, typename E>
static void by_alg(H<T>& h, char const* name)
{
    switch (h.get("alg", 0))
    {
    case 0: engine_case<T, plain_alg<T, E>, E>(h, name); break;
    case 1: engine_case<T, vegas_alg<T, E>, E>(h, name); break;
    case 2: engine_case<T, multi_alg<T, E>, E>(h, name); break;
    }
}

template <typename T>
static void body(H<T>& h)
{
    switch (h.get("e", 0))
    {
    case 0: by_alg<T, std::minstd_rand0>(h, "minstd_rand0"); break;
    case 1: by_alg<T, std::minstd_rand>(h, "minstd_rand"); break;
    case 2: by_alg<T, std::mt19937>(h, "mt19937"); break;
    case 3: by_alg<T, std::mt19937_64>(h, "mt19937_64"); break;
    case 4: by_alg<T, std::ranlux24_base>(h, "ranlux24_base"); break;
    case 5: by_alg<T, std::ranlux48_base>(h, "ranlux48_base"); break;
    case 6: by_alg<T, std::ranlux24>(h, "ranlux24"); break;
    case 7: by_alg<T, std::ranlux48>(h, "ranlux48"); break;
    case 8: by_alg<T, std::knuth_b>(h, "knuth_b"); break;
    }
}

VERIF_MAIN("engines", body)
