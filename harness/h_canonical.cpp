// Route S harness: libstdc++'s generic std::generate_canonical run with T = sym::real and an engine with
// symbolic outputs, against hep::random_number_usage (C10, and the draw-count assumption of the stub engine
// used by all other harnesses).  Compiled per numeric flavour (SYM_DIGITS = 24 / 53 / 64).
//   cfg: e = engine index
#define SYM_REAL_IS_FLOATING_POINT
#include "harness.hpp"

#include "hep/mc/generator_helper.hpp"

#include <random>

using sym::H;

// unsigned integer that is either a constant or a symbolic engine output
template <typename T>
struct sym_uint
{
    bool symbolic = false;
    unsigned long long value = 0;
    T expr = T();
    sym_uint() {}
    explicit sym_uint(unsigned long long v) : value(v), expr(T(static_cast<long double>(v))) {}
    // constants convert to any native floating point type (min / max); an output converts to the numeric type under test
    template <typename U, typename std::enable_if<std::is_arithmetic<U>::value && std::is_floating_point<U>::value && !std::is_same<U, T>::value, int>::type = 0>
    explicit operator U() const { return static_cast<U>(value); }
    explicit operator T() const { return expr; }
    friend sym_uint operator-(sym_uint const& a, sym_uint const& b)
    {
        sym_uint r;
        r.symbolic = a.symbolic || b.symbolic;
        r.value = a.value - b.value;
        r.expr = a.expr - b.expr;
        return r;
    }
};

template <typename T, unsigned long long Min, unsigned long long Max>
struct range_engine
{
    using result_type = sym_uint<T>;
    static H<T>* h;
    static std::size_t count;
    static std::vector<T>* outputs;
    static result_type min() { return result_type(Min); }
    static result_type max() { return result_type(Max); }
    result_type operator()()
    {
        ++count;
        result_type r;
        r.symbolic = true;
        r.value = Min;
        // an arbitrary output of the engine: integer valued is not needed for the obligations (any real in [min, max])
        r.expr = h->input("raw");
        h->assume(h->le(T(static_cast<long double>(Min)), r.expr) && h->le(r.expr, T(static_cast<long double>(Max))));
        r.value = static_cast<unsigned long long>(Min);
        outputs->push_back(r.expr);
        return r;
    }
};
template <typename T, unsigned long long Min, unsigned long long Max> H<T>* range_engine<T, Min, Max>::h = nullptr;
template <typename T, unsigned long long Min, unsigned long long Max> std::size_t range_engine<T, Min, Max>::count = 0;
template <typename T, unsigned long long Min, unsigned long long Max> std::vector<T>* range_engine<T, Min, Max>::outputs = nullptr;

template <typename T, unsigned long long Min, unsigned long long Max>
static void run_engine(H<T>& h, char const* name)
{
    using E = range_engine<T, Min, Max>;
    std::vector<T> outs;
    E::h = &h; E::count = 0; E::outputs = &outs;
    E eng;
    constexpr int digits = std::numeric_limits<T>::digits;
    std::size_t const predicted = hep::random_number_usage<T, E>();
    T const u = std::generate_canonical<T, digits>(eng);
    std::size_t const k1 = E::count;
    T const u2 = std::generate_canonical<T, digits>(eng);
    std::size_t const k2 = E::count - k1;
    h.event(std::string("engine ") + name + " digits " + std::to_string(digits) + " draws " + std::to_string(k1) + " predicted " + std::to_string(predicted));
    h.check("C10|canonical.raw_draws_per_number_equal_the_usage_predictor", h.truth(k1 == predicted && k2 == predicted));
    h.check("C10,C17|canonical.number_in_half_open_unit_interval", h.le(T(0.0), u) && h.lt(u, T(1.0)) && h.le(T(0.0), u2) && h.lt(u2, T(1.0)));
    // documented value: sum_i (x_i - min) R^i / R^k
    long double const R = static_cast<long double>(Max) - static_cast<long double>(Min) + 1.0L;
    T sum = T(0.0), scale = T(1.0);
    for (std::size_t i = 0; i != k1 && i < outs.size(); ++i)
    {
        sum += (outs[i] - T(static_cast<long double>(Min))) * scale;
        scale *= T(R);
    }
    h.check("C10|canonical.value_is_the_scaled_sum_of_the_raw_draws", h.eq(u * scale, sum));
}

template <typename T>
static void body(H<T>& h)
{
    // the position counting stub engine of the other harnesses advances by SYM_RAW_PER_CANONICAL per number: that is
    // what the library's predictor says for a 32 bit engine
    h.check("C10|stub_engine_advance_matches_usage_predictor",
        h.truth(hep::random_number_usage<T, sym::stub_engine>() == SYM_RAW_PER_CANONICAL));
    switch (h.get("e", 0))
    {
    // ranges of the standard engines
    case 0: run_engine<T, 1ull, 2147483646ull>(h, "minstd_rand0/minstd_rand/knuth_b [1, 2^31-2]"); break;
    case 1: run_engine<T, 0ull, 4294967295ull>(h, "mt19937 [0, 2^32-1]"); break;
    case 2: run_engine<T, 0ull, 18446744073709551615ull>(h, "mt19937_64 [0, 2^64-1]"); break;
    case 3: run_engine<T, 0ull, 16777215ull>(h, "ranlux24_base/ranlux24 [0, 2^24-1]"); break;
    case 4: run_engine<T, 0ull, 281474976710655ull>(h, "ranlux48_base/ranlux48 [0, 2^48-1]"); break;
    // synthetic ranges
    case 5: run_engine<T, 0ull, 255ull>(h, "[0, 2^8-1]"); break;
    case 6: run_engine<T, 0ull, 65535ull>(h, "[0, 2^16-1]"); break;
    case 7: run_engine<T, 0ull, 2147483647ull>(h, "[0, 2^31-1]"); break;
    case 8: run_engine<T, 0ull, 8589934591ull>(h, "[0, 2^33-1]"); break;
    case 9: run_engine<T, 0ull, 9223372036854775807ull>(h, "[0, 2^63-1]"); break;
    case 10: run_engine<T, 3ull, 1000ull>(h, "[3, 1000]"); break;
    case 11: run_engine<T, 0ull, 1ull>(h, "[0, 1]"); break;
    }
}

// the ranges above are those of the standard engines
static_assert(std::minstd_rand0::min() == 1 && std::minstd_rand0::max() == 2147483646ull, "minstd_rand0");
static_assert(std::minstd_rand::min() == 1 && std::minstd_rand::max() == 2147483646ull, "minstd_rand");
static_assert(std::knuth_b::min() == 1 && std::knuth_b::max() == 2147483646ull, "knuth_b");
static_assert(std::mt19937::min() == 0 && std::mt19937::max() == 4294967295ull, "mt19937");
static_assert(std::mt19937_64::min() == 0 && std::mt19937_64::max() == 18446744073709551615ull, "mt19937_64");
static_assert(std::ranlux24_base::min() == 0 && std::ranlux24_base::max() == 16777215ull, "ranlux24_base");
static_assert(std::ranlux24::min() == 0 && std::ranlux24::max() == 16777215ull, "ranlux24");
static_assert(std::ranlux48_base::min() == 0 && std::ranlux48_base::max() == 281474976710655ull, "ranlux48_base");
static_assert(std::ranlux48::min() == 0 && std::ranlux48::max() == 281474976710655ull, "ranlux48");

VERIF_MAIN("canonical", body)
