// Route S harness: one iteration of each integrator with stub integrand / map (C01 C02 C06 C10 C17)
//   cfg: alg=0 plain, 1 vegas, 2 multi_channel; N calls; d dimensions; B bins; C channels
//        fk = kinds of integrand values (2: zero/finite, 5: + NaN/+-inf); jk = kinds of the jacobian
//        ask=1 integrand may request the weight itself; dist=0/1/5 projector use (kinds of its value)
#include "stubs.hpp"

#include "hep/mc/multi_channel.hpp"
#include "hep/mc/multi_channel_integrand.hpp"
#include "hep/mc/plain.hpp"
#include "hep/mc/vegas.hpp"

using sym::H;

template <typename T>
struct ref_call
{
    bool nonzero = false, finite = false;
    T fw;   // f*w if finite else 0
    T w;
};

// reference classification of one call from the logged f and the independently computed weight
template <typename T>
static ref_call<T> classify(H<T>& h, T const& f, int f_kind, T const& w)
{
    using sym::isfinite;
    using std::isfinite;
    ref_call<T> r;
    r.w = w;
    r.fw = T(0.0);
    if (f_kind == sym::V_ZERO) return r;
    r.nonzero = true;
    T const prod = f * w;
    if (isfinite(prod)) { r.finite = true; r.fw = prod; }
    (void) h;
    return r;
}

template <typename T, typename R>
static void check_result_against_reference(H<T>& h, R const& result, std::size_t N,
    std::vector<ref_call<T>> const& ref, std::size_t integrand_calls)
{
    using sym::isfinite;
    using std::isfinite;
    std::size_t nz = 0, fin = 0;
    T sum = T(), sumsq = T();
    for (auto const& r : ref)
    {
        if (r.nonzero) ++nz;
        if (r.finite) { ++fin; sum += r.fw; sumsq += r.fw * r.fw; }
    }
    h.check("C02,C17|iteration.integrand_called_exactly_N_times", h.truth(integrand_calls == N && ref.size() == N));
    h.check("C02|iteration.calls_is_N", h.truth(result.calls() == N));
    h.check("C02,C06|iteration.non_zero_calls_counts_non_zero_evaluations", h.truth(result.non_zero_calls() == nz));
    h.check("C02,C06|iteration.finite_calls_counts_finite_non_zero_evaluations", h.truth(result.finite_calls() == fin));
    h.check("C06|iteration.sums_are_finite", h.finite(result.sum()) && h.finite(result.sum_of_squares()));
    h.check("C01,C02,C06|iteration.sum_is_sum_of_f_times_w_over_finite_evaluations", h.eq(result.sum(), sum));
    h.check("C02,C06|iteration.sum_of_squares_is_sum_of_squared_f_times_w", h.eq(result.sum_of_squares(), sumsq));
    if (sym::bit_precise && N > 2) return;   // compensated and plain summation differ in the last bits for N > 2
    if (N >= 1 && !sym::bit_precise)
    {
        h.check("C01,C02|result.value_is_sum_over_N", h.eq(result.value() * T(N), sum));
    }
    if (N >= 2 && !sym::bit_precise)
    {
        T const E = sum / T(N);
        h.check("C02|result.variance_formula",
            h.eq(result.variance() * T(N - 1), sumsq / T(N) - E * E));
        T const err = result.error();
        if (isfinite(err))
            h.check("C02|result.error_is_root_of_variance", h.eq(err * err, result.variance()) && h.le(T(0.0), err));
    }
}

// one 1-d distribution with 2 bins on [0,1); the stub hands (x = 0.25, v) to the projector: bin 0 holds sum v*w over the finite products
template <typename T, typename R>
static void check_distribution_bins(H<T>& h, R const& result, std::vector<sym::call_record<T>> const& calls, std::vector<T> const& weights)
{
    using sym::isfinite;
    using std::isfinite;
    if (result.distributions().size() != 1 || result.distributions()[0].results().size() != 2) return;
    T sum = T(), sumsq = T();
    for (std::size_t k = 0; k != calls.size() && k != weights.size(); ++k)
    {
        if (!calls[k].has_dist) continue;
        T const t = calls[k].dist_v * weights[k];
        if (isfinite(t)) { sum += t; sumsq += t * t; }
    }
    auto const& b0 = result.distributions()[0].results()[0];
    auto const& b1 = result.distributions()[0].results()[1];
    h.check("C06,C11|distribution.bins_stay_finite", h.finite(b0.sum()) && h.finite(b0.sum_of_squares()) && h.finite(b1.sum()) && h.finite(b1.sum_of_squares()));
    h.check("C06,C11|distribution.bin_holds_the_finite_weighted_values_only",
        h.eq(b0.sum() * T(0.5), sum) && h.eq(b0.sum_of_squares() * T(0.25), sumsq) && h.eq(b1.sum(), T(0.0)));
}

template <typename T>
static std::vector<sym::dec> dummy();

// ---- PLAIN -------------------------------------------------------------------------------------
template <typename T>
static void ob_plain(H<T>& h)
{
    std::size_t const N = h.get("N", 2), d = h.get("d", 1);
    sym::run_log<T> log;
    sym::stub_tables<T> tab;
    sym::stub_integrand<T> f;
    f.h = &h; f.log = &log; f.tab = &tab; f.f_kinds = h.get("fk", 2);
    f.dist_kinds = h.get("dist", 0);
    sym::stub_engine eng;
    eng.position = 7;
    std::uint64_t const pos0 = eng.position;

    hep::plain_result<T> result = (f.dist_kinds > 0)
        ? hep::plain_iteration(hep::make_integrand<T>(f, d, hep::make_dist_params<T>(2, T(0.0), T(1.0), "x")), N, eng)
        : hep::plain_iteration(hep::make_integrand<T>(f, d), N, eng);

    auto const& draws = sym::canon_table<T>::draws();
    h.check("C10|plain.d_canonical_numbers_per_call", h.truth(draws.size() == N * d));
    h.check("C10|plain.generator_advanced_by_calls_times_d_times_raw",
        h.truth(eng.position == pos0 + N * d * SYM_RAW_PER_CANONICAL));

    std::vector<ref_call<T>> ref;
    for (std::size_t k = 0; k != log.calls.size(); ++k)
    {
        auto const& c = log.calls[k];
        // the integrand sees exactly the canonical numbers, in stream order
        auto same = h.truth(c.coords.size() == d);
        for (std::size_t j = 0; j != c.coords.size() && (k * d + j) < draws.size(); ++j)
            same = same && h.same(c.coords[j], sym::canon_table<T>::table().at(draws[k * d + j]));
        h.check("C17|plain.coordinates_are_the_canonical_numbers_in_order", same);
        ref.push_back(classify(h, c.f, c.f_kind, T(1.0)));
    }
    check_result_against_reference(h, result, N, ref, log.calls.size());
}

// ---- VEGAS -------------------------------------------------------------------------------------
template <typename T>
static void ob_vegas(H<T>& h)
{
    std::size_t const N = h.get("N", 2), d = h.get("d", 1), B = h.get("B", 2);
    sym::run_log<T> log;
    sym::stub_tables<T> tab;
    sym::stub_integrand<T> f;
    f.h = &h; f.log = &log; f.tab = &tab; f.f_kinds = h.get("fk", 2);
    f.dist_kinds = h.get("dist", 0);
    sym::stub_engine eng;
    eng.position = 3;
    std::uint64_t const pos0 = eng.position;

    hep::vegas_pdf<T> pdf(d, B);
    for (std::size_t i = 0; i != d; ++i)
    {
        T prev = T(0.0);
        for (std::size_t b = 1; b != B; ++b)
        {
            T g = h.input("g", 0.0, 1.0);
            h.assume(h.lt(prev, g));
            pdf.set_bin_left(i, b, g);
            prev = g;
        }
        h.assume(h.lt(prev, T(1.0)));
    }

    hep::vegas_result<T> result = (f.dist_kinds > 0)
        ? hep::vegas_iteration(hep::make_integrand<T>(f, d, hep::make_dist_params<T>(2, T(0.0), T(1.0), "x")), N, pdf, eng)
        : hep::vegas_iteration(hep::make_integrand<T>(f, d), N, pdf, eng);

    auto const& draws = sym::canon_table<T>::draws();
    h.check("C10|vegas.d_canonical_numbers_per_call", h.truth(draws.size() == N * d));
    h.check("C10|vegas.generator_advanced_by_calls_times_d_times_raw",
        h.truth(eng.position == pos0 + N * d * SYM_RAW_PER_CANONICAL));

    std::vector<ref_call<T>> ref;
    std::vector<T> adj(d * B, T(0.0));
    for (std::size_t k = 0; k != log.calls.size(); ++k)
    {
        auto const& c = log.calls[k];
        T w = T(1.0);
        auto inside = h.truth(c.bins.size() == d && c.coords.size() == d);
        bool ok = c.bins.size() == d;
        for (std::size_t j = 0; ok && j != d; ++j)
        {
            if (c.bins[j] >= B) { ok = false; break; }
            T const l = pdf.bin_left(j, c.bins[j]), r = pdf.bin_left(j, c.bins[j] + 1);
            inside = inside && h.le(l, c.coords[j]) && h.le(c.coords[j], r) &&
                h.le(T(0.0), c.coords[j]) && h.le(c.coords[j], T(1.0));
            w = w * (T(B) * (r - l));
            // the point is the image of the k-th canonical numbers
            T const u = sym::canon_table<T>::table().at(draws[k * d + j]);
            inside = inside && h.eq(c.coords[j], l + (u * T(B) - T(c.bins[j])) * (r - l));
        }
        h.check("C17,C07|vegas.bin_index_below_bins", h.truth(ok));
        if (!ok) return;
        h.check("C01,C07,C17|vegas.point_in_reported_bin_and_unit_interval_image_of_canonical_numbers", inside);
        ref_call<T> rc = classify(h, c.f, c.f_kind, w);
        ref.push_back(rc);
        for (std::size_t j = 0; j != d; ++j) adj[j * B + c.bins[j]] += rc.fw * rc.fw;
    }
    check_result_against_reference(h, result, N, ref, log.calls.size());

    auto adj_ok = h.truth(result.adjustment_data().size() == d * B);
    bool adj_fin = true;
    for (std::size_t i = 0; i != d * B && i < result.adjustment_data().size(); ++i)
    {
        adj_fin = adj_fin && sym::isfinite(result.adjustment_data()[i]);
        adj_ok = adj_ok && h.eq(result.adjustment_data()[i], adj[i]);
    }
    h.check("C06|vegas.adjustment_data_finite", h.truth(adj_fin));
    h.check("C02,C06|vegas.adjustment_data_is_per_bin_sum_of_squares", adj_ok);
    auto pdf_ok = h.truth(result.pdf().bins() == B && result.pdf().dimensions() == d);
    for (std::size_t i = 0; i != d; ++i)
        for (std::size_t b = 0; b <= B; ++b) pdf_ok = pdf_ok && h.same(result.pdf().bin_left(i, b), pdf.bin_left(i, b));
    h.check("C19|vegas.result_records_the_grid_used", pdf_ok);
}

// ---- multi channel -----------------------------------------------------------------------------
template <typename T>
static void ob_multi_channel(H<T>& h)
{
    using sym::isfinite;
    using std::isfinite;
    std::size_t const N = h.get("N", 1), d = h.get("d", 1), C = h.get("C", 2);
    std::size_t const md = h.get("md", static_cast<long>(d));     // size of the coordinate vector the map fills (may differ from d)
    sym::run_log<T> log;
    sym::stub_tables<T> tab;
    std::vector<sym::map_record<T>> cc, dc;
    sym::stub_integrand<T> f;
    f.h = &h; f.log = &log; f.tab = &tab; f.f_kinds = h.get("fk", 2);
    f.may_ask_weight = h.get("ask", 0) != 0;
    f.dist_kinds = h.get("dist", 0);
    f.dist_x_symbolic = h.get("dx", 1) != 0;
    f.projector_optional = h.get("popt", 0) != 0;
    sym::stub_channel_map<T> m;
    m.h = &h; m.log = &log; m.tab = &tab; m.coord_calls = &cc; m.dens_calls = &dc;
    m.jac_kinds = h.get("jk", 1);
    m.density_may_vanish = h.get("pz", 0) != 0;
    m.coordinate_return_forks = h.get("cr", 0) != 0;
    sym::stub_engine eng;
    eng.position = 11;
    std::uint64_t const pos0 = eng.position;

    // weights: zero pattern chosen by fork; non-zero entries symbolic (not necessarily normalised)
    std::vector<T> w(C);
    std::vector<bool> wz(C, false);
    bool any = false;
    for (std::size_t i = 0; i != C; ++i)
    {
        bool z = h.choose("weight_is_zero", 2) == 1;
        if (i + 1 == C && !any) z = false;
        wz[i] = z;
        if (z) w[i] = T(0.0); else { w[i] = h.input("alpha", 0.0, 1.0, true, false); any = true; }
    }
    std::vector<std::size_t> enabled;
    for (std::size_t i = 0; i != C; ++i) if (!wz[i]) enabled.push_back(i);

    if (h.get("allzero", 0) != 0)
    {
        // a weight vector without any enabled channel: the code may reject it (exception), but if it performs the
        // iteration the consumption of generator output must not depend on the weights (C10)
        std::vector<T> const zeros(C, T(0.0));
        try
        {
            hep::multi_channel_result<T> const r =
                hep::multi_channel_iteration(hep::make_multi_channel_integrand<T>(f, d, m, md, C), N, zeros, eng);
            h.check("C10|multi_channel.all_zero_weights_generator_advanced_by_reported_calls_times_d_plus_one_times_raw",
                h.truth(eng.position == pos0 + r.calls() * (d + 1) * SYM_RAW_PER_CANONICAL && r.calls() == N));
        }
        catch (std::exception const&)
        {
            h.event("all-zero weight vector rejected by an exception");
        }
        return;
    }

    hep::multi_channel_result<T> result = (f.dist_kinds > 0)
        ? hep::multi_channel_iteration(hep::make_multi_channel_integrand<T>(f, d, m, md, C,
              hep::make_dist_params<T>(2, T(0.0), T(1.0), "x")), N, w, eng)
        : hep::multi_channel_iteration(hep::make_multi_channel_integrand<T>(f, d, m, md, C), N, w, eng);

    auto const& draws = sym::canon_table<T>::draws();
    h.check("C10|multi_channel.d_plus_one_canonical_numbers_per_call", h.truth(draws.size() == N * (d + 1)));
    h.check("C10|multi_channel.generator_advanced_by_calls_times_d_plus_one_times_raw",
        h.truth(eng.position == pos0 + N * (d + 1) * SYM_RAW_PER_CANONICAL));

    // protocol: per call  map_coordinates, integrand, [integrand_got_weight], [map_densities]
    std::size_t e = 0, di = 0;
    std::vector<T> call_weights;
    std::vector<ref_call<T>> ref;
    std::vector<T> adj(C, T(0.0));
    bool protocol = true;
    h.check("C17|multi_channel.map_asked_for_coordinates_once_per_call", h.truth(cc.size() == N && log.calls.size() == N));
    if (cc.size() != N || log.calls.size() != N) return;
    for (std::size_t k = 0; k != N; ++k)
    {
        auto const& c = log.calls[k];
        auto const& mc = cc[k];
        std::string s;
        protocol = protocol && e < log.events.size() && log.events[e++] == "map_coordinates";
        protocol = protocol && e < log.events.size() && log.events[e++] == "integrand";
        // the weight is needed if the value is non-zero, or if the integrand asked for it - directly or by handing a
        // value to the projector (which multiplies it with the weight)
        bool densities_expected = c.asked_weight || c.has_dist || c.f_kind != sym::V_ZERO;
        // densities may be requested while the integrand runs (it asked for the weight) and/or
        // right after it; a weight that evaluates to zero is not cached, so the request can repeat
        std::size_t ndens = 0;
        while (e < log.events.size() && (log.events[e] == "map_densities" || log.events[e] == "integrand_got_weight"))
        {
            if (log.events[e] == "map_densities") ++ndens;
            ++e;
        }
        bool const had_dens = ndens > 0;
        h.check("C17|multi_channel.densities_requested_iff_value_non_zero_or_integrand_asked",
            h.truth(had_dens == densities_expected));
        // channel and enabled list handed to the map
        bool ch_ok = mc.channel < C && !wz[mc.channel] && mc.enabled == enabled && c.channel == mc.channel;
        h.check("C09,C17|multi_channel.map_gets_enabled_channel_and_complete_enabled_list", h.truth(ch_ok));
        if (!ch_ok) return;
        // random numbers handed to the map: the d canonical numbers of this call, in [0,1)
        auto rn_ok = h.truth(mc.rn.size() == d);
        for (std::size_t j = 0; j != d && j < mc.rn.size(); ++j)
        {
            rn_ok = rn_ok && h.same(mc.rn[j], sym::canon_table<T>::table().at(draws[k * (d + 1) + j]))
                && h.le(T(0.0), mc.rn[j]) && h.lt(mc.rn[j], T(1.0));
        }
        h.check("C17|multi_channel.map_gets_the_canonical_numbers_of_the_call", rn_ok);
        // the channel is the one selected by the (d+1)-th canonical number
        {
            T const u = sym::canon_table<T>::table().at(draws[k * (d + 1) + d]);
            T total = T(), lo = T();
            for (auto const& x : w) total += x;
            for (std::size_t i = 0; i != mc.channel; ++i) lo += w[i];
            h.check("C01,C09|multi_channel.channel_selected_by_cumulative_weights",
                h.le(lo, u * total) && h.le(u * total, lo + w[mc.channel]));
        }
        auto seen = h.truth(c.coords.size() == d);
        for (std::size_t j = 0; j != d && j < c.coords.size(); ++j) seen = seen && h.same(c.coords[j], mc.rn[j]);
        h.check("C17|multi_channel.integrand_point_is_the_random_numbers", seen);
        h.check("C17|multi_channel.coordinate_buffer_has_the_size_the_integrand_declared", h.truth(mc.coords_after.size() == md));

        T wgt = T(0.0);
        if (had_dens)
        {
            if (di + ndens > dc.size()) { protocol = false; break; }
            auto const& md = dc[di];
            for (std::size_t q = 1; q < ndens; ++q)
            {
                auto const& mq = dc[di + q];
                protocol = protocol && mq.channel == md.channel && mq.a_dens == md.a_dens && mq.a_coords == md.a_coords;
            }
            di += ndens;
            bool same_bufs = md.a_rn == mc.a_rn && md.a_coords == mc.a_coords && md.a_dens == mc.a_dens &&
                md.a_enabled == mc.a_enabled && md.channel == mc.channel && md.enabled == mc.enabled;
            auto untouched = h.truth(md.coords_after.size() == mc.coords_after.size());
            for (std::size_t j = 0; j != mc.coords_after.size() && j < md.coords_after.size(); ++j)
                untouched = untouched && h.same(md.coords_after[j], mc.coords_after[j]);
            for (std::size_t j = 0; j != d && j < md.rn.size(); ++j) untouched = untouched && h.same(md.rn[j], mc.rn[j]);
            // the density buffer still holds what the map left in it for the enabled channels
            untouched = untouched && h.truth(md.dens_seen.size() == mc.dens_seen.size());
            for (auto const j : enabled)
                if (j < md.dens_seen.size() && j < mc.dens_seen.size()) untouched = untouched && h.same(md.dens_seen[j], mc.dens_seen[j]);
            h.check("C17|multi_channel.densities_asked_with_same_channel_numbers_and_buffers_untouched",
                h.truth(same_bufs) && untouched);
            T total = T();
            for (std::size_t j = 0; j != C; ++j) if (!wz[j]) total += w[j] * md.p[j];
            wgt = md.jac / total;
            if (c.asked_weight)
                h.check("C01|multi_channel.weight_given_to_integrand_is_jacobian_over_density_sum",
                    h.same(c.asked_weight_value, wgt));
            ref_call<T> rc = classify(h, c.f, c.f_kind, wgt);
            ref.push_back(rc);
            call_weights.push_back(wgt);
            if (rc.finite)
                for (std::size_t j = 0; j != C; ++j)
                    if (!wz[j]) adj[j] += md.p[j] * (rc.fw * rc.fw) * wgt;
        }
        else
        {
            ref.push_back(classify(h, c.f, c.f_kind, T(1.0)));
            call_weights.push_back(T(1.0));
        }
    }
    h.check("C17|multi_channel.call_protocol_order", h.truth(protocol && e == log.events.size()));
    check_result_against_reference(h, result, N, ref, log.calls.size());
    if (f.dist_kinds > 0 && !f.dist_x_symbolic) check_distribution_bins<T>(h, result, log.calls, call_weights);

    auto adj_ok = h.truth(result.adjustment_data().size() == C);
    bool adj_fin = true;
    for (std::size_t j = 0; j != C && j < result.adjustment_data().size(); ++j)
    {
        adj_fin = adj_fin && isfinite(result.adjustment_data()[j]);
        if (!wz[j]) adj_ok = adj_ok && h.eq(result.adjustment_data()[j], adj[j]);
    }
    h.check("C06|multi_channel.adjustment_data_finite", h.truth(adj_fin));
    h.check("C02,C06|multi_channel.adjustment_data_is_per_channel_sum", adj_ok);
    auto w_ok = h.truth(result.channel_weights().size() == C);
    for (std::size_t j = 0; j != C && j < result.channel_weights().size(); ++j)
        w_ok = w_ok && h.same(result.channel_weights()[j], w[j]);
    h.check("C19|multi_channel.result_records_the_weights_used", w_ok);
}

template <typename T>
static void body(H<T>& h)
{
    // T -> size_t conversions: values >= cap are represented by the single value cap (the code only
    // compares such an index against the bin count, which is < cap)
    sym::E().conv_cap = static_cast<std::size_t>(h.get("cap", 4));
    switch (h.get("alg", 0))
    {
    case 0: ob_plain(h); break;
    case 1: ob_vegas(h); break;
    case 2: ob_multi_channel(h); break;
    }
}

VERIF_MAIN("iteration", body)
