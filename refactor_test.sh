#!/bin/bash
# refactor_test.sh <patch.diff>: applies a behaviour-preserving change to /repo, runs every quick check (none may raise an alarm), undoes it
patch=$1
cd /repo || exit 9
if ! git diff --quiet; then echo "repo dirty"; exit 9; fi
git apply "$patch" || { echo "patch does not apply"; exit 9; }
cd /verif
export VERIF_EVIDENCE_DIR=/verif/out/mutant_evidence
for p in $(python3 -c "import json; print(' '.join(c['property_id'] for c in json.load(open('MANIFEST.json'))['checks']))"); do
  python3 run_check.py $p > /tmp/ref_$p.log 2>&1; rc=$?
  [ $rc -ne 0 ] && echo "$p rc=$rc $(grep -m2 '^VIOLATION\|^INCONCLUSIVE' -A1 /tmp/ref_$p.log | tr '\n' ' ' | cut -c1-300)"
done
echo "done $(basename $(dirname $patch))"
git -C /repo checkout -- .
