"""plan.py - which obligations decide which property, per tier (see DESIGN.md section 3)"""

HARNESS_FLAGS = {}
HARNESS_LIBS = {}

Q = ("quick", "thorough")
T = ("thorough",)


def S(harness, cfg, expect=(), tiers=Q, **kw):
    d = dict(route="S", harness=harness, cfg=cfg, expect=list(expect), tiers=tiers)
    d.update(kw)
    return d


ICDF_EXPECT = ["icdf.bin_below_bins", "icdf.point_inside_reported_bin", "icdf.weight_is_product",
               "icdf.bin_is_floor_u_times_bins"]
REFINE_EXPECT = ["refine.zero_data_leaves_grid_unchanged", "refine.starts_at_zero", "refine.ends_at_one", "refine.non_decreasing",
                 "refine.equal_share_of_importance", "refine.boundaries_finite"]

PLAN = {}

PLAN["C07"] = dict(
    level="model_checking",
    functions=["hep::vegas_pdf<T>::vegas_pdf", "hep::vegas_icdf<T>", "hep::vegas_refine_pdf<T>",
               "hep::vegas_point<T>::vegas_point"],
    bounds={"quick": "bins B<=4 (refine; 2 dimensions with B=2), B<=4 (icdf), dimensions d<=2; all grids, data>=0, alpha in [0,3], u in [0,1] symbolic",
            "thorough": "bins B<=4 (refine; B=5 single dimension), B<=5 (icdf), d<=2"},
    outside="larger B/d; rounding, overflow, signed zeros (exact extended reals)",
    assumptions=["exact extended-real arithmetic (no rounding/overflow)",
                 "pow/log modelled by their sign/monotonicity contract only",
                 "nexttoward(1,0) in [1-2^-20, 1)"],
    jobs=[
        S("h_vegas_pdf", dict(ob=0, B=2, d=1), ICDF_EXPECT),
        S("h_vegas_pdf", dict(ob=0, B=3, d=2, closed=1), ICDF_EXPECT),
        S("h_vegas_pdf", dict(ob=0, B=4, d=1, closed=1), ICDF_EXPECT),
        S("h_vegas_pdf", dict(ob=0, B=5, d=2, closed=1), ICDF_EXPECT, tiers=T),
        S("h_vegas_pdf", dict(ob=1, B=2, d=1), REFINE_EXPECT),
        S("h_vegas_pdf", dict(ob=1, B=3, d=1), REFINE_EXPECT),
        S("h_vegas_pdf", dict(ob=1, B=2, d=2), REFINE_EXPECT),
        S("h_vegas_pdf", dict(ob=1, B=4, d=1), REFINE_EXPECT),
        S("h_vegas_pdf", dict(ob=1, B=3, d=2), REFINE_EXPECT, tiers=T),
    ],
)

# ---------------------------------------------------------------------------------------------
COMMON_ASSUME = ["exact extended-real arithmetic (finite values are z3 reals: no rounding, overflow, underflow, signed zero)",
                 "pow/log/sqrt modelled by contract (sign, monotonicity, pow(x,0)=1, pow(0,b>0)=0, s*s=v)",
                 "canonical random numbers are arbitrary reals in [0,1) (u == 1 additionally where stated)",
                 "stub integrand / channel map return arbitrary values of the stated kinds; the map fills the densities of the enabled channels only"]

IT_P = dict(alg=0)
IT_V = dict(alg=1)
IT_M = dict(alg=2)


def it(alg, **kw):
    c = dict(alg=alg)
    c.update(kw)
    return c


ITERATION_JOBS_Q = [
    S("h_iteration", it(0, N=0, d=1, fk=2), ["iteration.calls_is_N"]),
    S("h_iteration", it(0, N=2, d=2, fk=5), ["iteration.sum_is_sum"]),
    S("h_iteration", it(0, N=1, d=1, fk=5, dist=5), ["iteration.sum_is_sum"]),
    S("h_iteration", it(0, N=2, d=1, fk=2, dist=1), ["iteration.sum_is_sum"]),
    S("h_iteration", it(1, N=0, d=1, B=2, fk=2), ["iteration.calls_is_N"]),
    S("h_iteration", it(1, N=2, d=1, B=2, fk=5), ["vegas.adjustment_data_is_per_bin"]),
    S("h_iteration", it(1, N=1, d=2, B=2, fk=5), ["vegas.adjustment_data_is_per_bin"]),
    S("h_iteration", it(1, N=1, d=1, B=3, fk=5, dist=5), ["vegas.adjustment_data_is_per_bin"]),
    S("h_iteration", it(2, N=0, d=1, C=2, fk=2), ["iteration.calls_is_N"]),
    S("h_iteration", it(2, N=1, d=1, C=2, fk=5, jk=5, ask=1, pz=1), ["multi_channel.adjustment_data_is_per_channel"]),
    S("h_iteration", it(2, N=2, d=1, C=2, fk=2, jk=1), ["multi_channel.adjustment_data_is_per_channel"]),
    S("h_iteration", it(2, N=1, d=2, C=3, fk=2, jk=1, ask=1), ["multi_channel.call_protocol_order"]),
    S("h_iteration", it(2, N=1, d=1, C=2, fk=5, jk=1, dist=5), ["multi_channel.adjustment_data_is_per_channel"]),
    S("h_iteration", it(2, N=1, d=1, C=2, fk=2, jk=1, dist=1, popt=1), ["multi_channel.call_protocol_order"]),
]
ITERATION_JOBS_T = [
    S("h_iteration", it(0, N=3, d=2, fk=5), ["iteration.sum_is_sum"], tiers=T),
    S("h_iteration", it(0, N=2, d=1, fk=5, dist=5), ["iteration.sum_is_sum"], tiers=T, split=8),
    S("h_iteration", it(1, N=3, d=1, B=2, fk=5), ["vegas.adjustment_data_is_per_bin"], tiers=T, split=8),
    S("h_iteration", it(1, N=2, d=2, B=2, fk=5), ["vegas.adjustment_data_is_per_bin"], tiers=T),
    S("h_iteration", it(1, N=2, d=1, B=4, fk=2), ["vegas.adjustment_data_is_per_bin"], tiers=T),
    S("h_iteration", it(2, N=2, d=1, C=2, fk=5, jk=5, pz=1), ["multi_channel.adjustment_data_is_per_channel"], tiers=T, split=16),
    S("h_iteration", it(2, N=2, d=1, C=3, fk=2, jk=1, ask=1), ["multi_channel.call_protocol_order"], tiers=T),
    S("h_iteration", it(2, N=1, d=1, C=4, fk=5, jk=1), ["multi_channel.call_protocol_order"], tiers=T),
]
ITERATION_JOBS = ITERATION_JOBS_Q + ITERATION_JOBS_T
ITER_FUNCS = ["hep::plain_iteration", "hep::vegas_iteration", "hep::multi_channel_iteration",
              "hep::accumulator<T,false>::invoke", "hep::accumulator<T,true>::invoke", "hep::accumulate",
              "hep::mc_result<T>::value/variance/error", "hep::vegas_point<T>", "hep::multi_channel_point2<T,M>::weight",
              "hep::discrete_distribution<size_t,T>", "hep::projector<T>::add"]
ITER_BOUNDS = {"quick": "calls N<=2, dimensions d<=2, bins B<=3, channels C<=3; every integrand value one of {0, finite, NaN, +inf, -inf}; "
                        "jacobian one of {finite>0, 0, NaN, +-inf}; all grids / weight vectors (every zero pattern) / random numbers symbolic",
               "thorough": "calls N<=3, d<=2, B<=4, C<=4, same value kinds"}

KERNEL_Q = [
    S("h_mc_kernels", dict(ob=0, C=2), ["refine_weights.sum_to_one"]),
    S("h_mc_kernels", dict(ob=0, C=3), ["refine_weights.sum_to_one", "refine_weights.documented_formula"]),
    S("h_mc_kernels", dict(ob=1, C=2), ["select.never_a_disabled"]),
    S("h_mc_kernels", dict(ob=1, C=3), ["select.never_a_disabled"]),
    S("h_mc_kernels", dict(ob=1, C=4, closed=1), ["select.never_a_disabled"]),
    S("h_mc_kernels", dict(ob=2, C=3), ["point.weight_is_jacobian"]),
    S("h_mc_kernels", dict(ob=3, C=3, user=1), ["initial.normalised_user_weights"]),
    S("h_mc_kernels", dict(ob=3, C=3, user=0), ["initial.uniform_default"]),
]
KERNEL_T = [
    S("h_mc_kernels", dict(ob=1, C=5, closed=1), ["select.never_a_disabled"]),
    S("h_mc_kernels", dict(ob=2, C=4), ["point.weight_is_jacobian"], tiers=T),
    S("h_mc_kernels", dict(ob=3, C=4, user=1), ["initial.normalised_user_weights"], tiers=T),
]
KERNEL_JOBS = KERNEL_Q + KERNEL_T
VEGAS_PDF_JOBS = PLAN["C07"]["jobs"]


def only(jobs, pred):
    return [j for j in jobs if pred(j)]


PLAN["C01"] = dict(
    functions=["hep::vegas_icdf<T>", "hep::multi_channel_point2<T,M>::weight", "hep::discrete_distribution<size_t,T>"] + ITER_FUNCS,
    bounds=ITER_BOUNDS, outside="larger sizes; rounding; the lattice-driven observable form (a concrete run)",
    assumptions=COMMON_ASSUME + ["change of variables: x affine in u on every bin with slope B*(g[i+1]-g[i]) and weight equal to the "
                                 "product of slopes implies sum_bins int f(x(u)) w du = int_0^1 f for every valid grid; selection "
                                 "probability alpha_i/sum alpha and weight J/sum_j alpha_j p_j imply E[f w] = int f J for normalised densities"],
    jobs=only(VEGAS_PDF_JOBS, lambda j: j["cfg"]["ob"] == 0) + KERNEL_JOBS + ITERATION_JOBS,
)
PLAN["C02"] = dict(functions=ITER_FUNCS, bounds=ITER_BOUNDS, outside="larger sizes; rounding (compensated summation is exact in the model)",
                   assumptions=COMMON_ASSUME, jobs=ITERATION_JOBS)
PLAN["C08"] = dict(
    functions=["hep::multi_channel_refine_weights<T>", "hep::multi_channel_chkpt<T>::multi_channel_chkpt", "hep::multi_channel_chkpt<T>::channels",
               "hep::multi_channel_chkpt<T>::channel_weights"],
    bounds={"quick": "channels C<=3, every zero pattern of weights and data, weights in (0,1e6], data in (0,1e30], beta in (0,1], min in [0,1/C)",
            "thorough": "C<=3 for the refinement kernel (C=4: z3 gives no verdict on one query in 300 s), C<=4 for the initial weights"},
    outside="larger C; rounding", assumptions=COMMON_ASSUME,
    jobs=only(KERNEL_JOBS, lambda j: j["cfg"]["ob"] in (0, 3)),
)
PLAN["C09"] = dict(
    functions=["hep::discrete_distribution<size_t,T>::discrete_distribution", "hep::discrete_distribution<size_t,T>::operator()",
               "hep::multi_channel_iteration (enabled_channels, channel handed to the map)"],
    bounds={"quick": "channels C<=4, every zero pattern, weights symbolic (unnormalised), u in [0,1) and u in [0,1] symbolic", "thorough": "C<=5"},
    outside="larger C; rounding of the cumulative sums (exact reals)", assumptions=COMMON_ASSUME,
    jobs=only(KERNEL_JOBS, lambda j: j["cfg"]["ob"] == 1) + only(ITERATION_JOBS, lambda j: j["cfg"]["alg"] == 2),
)

PLAN["C06"] = dict(functions=ITER_FUNCS + ["hep::accumulator<T,true>::add_to_1d_distribution"], bounds=ITER_BOUNDS,
                   outside="larger sizes; overflow of finite data to infinity (exact reals never overflow)",
                   assumptions=COMMON_ASSUME + ["'identical to a run in which the same points returned zero' is checked as: every sum, "
                                                "sum of squares, adjustment datum equals the reference computed over the finite evaluations only"],
                   jobs=ITERATION_JOBS)
PLAN["C10"] = dict(functions=ITER_FUNCS, bounds=ITER_BOUNDS, outside="raw draws per canonical number of the standard engines (Route I part)",
                   assumptions=COMMON_ASSUME, jobs=ITERATION_JOBS + only(KERNEL_JOBS, lambda j: j["cfg"]["ob"] == 1))
PLAN["C17"] = dict(functions=ITER_FUNCS + ["hep::vegas_icdf<T>"], bounds=ITER_BOUNDS, outside="larger sizes; rounding in the VEGAS coordinate",
                   assumptions=COMMON_ASSUME,
                   jobs=ITERATION_JOBS + only(VEGAS_PDF_JOBS, lambda j: j["cfg"]["ob"] == 0) + only(KERNEL_JOBS, lambda j: j["cfg"]["ob"] in (1, 2)))

# ---------------------------------------------------------------------------------------------
# driver level (real drivers + real checkpoint classes + text round trips)
def drv(ob, alg, **kw):
    c = dict(ob=ob, alg=alg)
    c.update(kw)
    return c


DRIVER_FUNCS = ["hep::plain", "hep::vegas", "hep::multi_channel", "hep::chkpt<R>", "hep::chkpt_with_rng<E,C>",
                "hep::vegas_chkpt<T>", "hep::multi_channel_chkpt<T>", "hep::make_*_chkpt(std::istream&)",
                "hep::mc_result<T>::serialize/(istream)", "hep::plain_result<T>::serialize/(istream)",
                "hep::vegas_result<T>::serialize/(istream)", "hep::multi_channel_result<T>::serialize/(istream)",
                "hep::distribution_parameters<T>::serialize/(istream)", "hep::distribution_result<T>::serialize/(istream)",
                "hep::vegas_pdf<T>::serialize/(istream)", "hep::vegas_refine_pdf<T>", "hep::multi_channel_refine_weights<T>"] + ITER_FUNCS
DRIVER_BOUNDS = {"quick": "n<=2 iterations (every subset of the interruption points incl. before the first iteration), 1-2 calls per iteration "
                          "(unequal), d=1, B=2 bins, C=2 channels, 0-1 distribution with 2 bins, names {'x','a b','',' lead','trail ','0 1'}; "
                          "numeric_limits flavours float/double/long double; default and user grid / weights (every zero pattern)",
                 "thorough": "n<=3 iterations, B<=3, C<=3, d<=2"}
DRIVER_ASSUME = COMMON_ASSUME + [
    "a real number is written as an opaque token and read back as the same value: formatting/parsing one finite number by libstdc++/glibc "
    "(vfprintf/strtod) with scientific notation and max_digits10 digits is assumed to round-trip; the harness checks that every number IS "
    "written with scientific notation and precision >= max_digits10-1 of the numeric type",
    "the random engine is a position counting stub whose text form is its position (std engines' own operator<< / >> are not encoded)"]

RESUME_Q = []
for alg in (0, 1, 2):
    RESUME_Q.append(S("h_driver", drv(0, alg, n=2, cp=1), ["resume.final_text_identical", "final_checkpoint.read_back"]))
RESUME_Q += [
    S("h_driver", drv(0, 1, n=2, cp=2, user=1), ["resume.final_text_identical"]),
    S("h_driver", drv(0, 2, n=2, cp=2, user=1), ["resume.final_text_identical"]),
    S("h_driver@24", drv(0, 1, n=2, cp=1, user=1), ["resume.final_text_identical"]),
    S("h_driver@64", drv(0, 1, n=2, cp=1, user=1), ["resume.final_text_identical"]),
    S("h_driver@24", drv(0, 2, n=1, cp=1, user=1), ["resume.final_text_identical"]),
    S("h_driver@64", drv(0, 2, n=1, cp=1, user=1), ["resume.final_text_identical"]),
    S("h_driver@64", drv(0, 0, n=2, cp=1, dist=1, fk=1, name=1), ["resume.final_text_identical"]),
]
for nm in range(6):
    RESUME_Q.append(S("h_driver", drv(0, 0, n=2, cp=1, dist=1, fk=1, name=nm), ["resume.final_text_identical"]))
RESUME_Q.append(S("h_driver", drv(0, 1, n=1, cp=1, dist=1, fk=1, name=2), ["resume.final_text_identical"]))
RESUME_Q.append(S("h_driver", drv(0, 2, n=1, cp=1, dist=1, fk=1, name=3), ["resume.final_text_identical"]))
RESUME_T = [
    S("h_driver", drv(0, 0, n=3, cp=1), ["resume.final_text_identical"]),
    S("h_driver", drv(0, 1, n=3, cp=1), ["resume.final_text_identical"], tiers=T),
    S("h_driver", drv(0, 2, n=3, cp=0), ["resume.final_text_identical"], tiers=T),
    S("h_driver", drv(0, 1, n=2, cp=1, B=3, user=1), ["resume.final_text_identical"], tiers=T),
    S("h_driver", drv(0, 1, n=2, cp=0, d=2, user=1), ["resume.final_text_identical"], tiers=T),
    S("h_driver", drv(0, 2, n=1, cp=0, C=3, user=1), ["resume.final_text_identical"], tiers=T, split=8),
    S("h_driver@24", drv(0, 2, n=2, cp=1, user=1), ["resume.final_text_identical"], tiers=T),
    S("h_driver@64", drv(0, 2, n=2, cp=1, user=1), ["resume.final_text_identical"], tiers=T),
]
RESUME_JOBS = RESUME_Q + RESUME_T

PLAN["C03"] = dict(functions=DRIVER_FUNCS, bounds=DRIVER_BOUNDS,
                   outside="more iterations / calls / bins / channels; std random engines; bitwise round trip of a single number through "
                           "libstdc++ formatting; the file written by the built-in callback uses the same serialize() (see C20)",
                   assumptions=DRIVER_ASSUME, jobs=RESUME_JOBS)
PLAN["C05"] = dict(functions=DRIVER_FUNCS, bounds=DRIVER_BOUNDS, level="other",
                   explanation="Bounded symbolic execution of the real serialize()/deserialising constructors over all values of every real field "
                               "(opaque tokens): decides dropped / swapped / shifted fields, conditional sections, name parsing and the precision "
                               "requested for each number. It does NOT decide that libstdc++ prints and parses a single float/double/long double "
                               "bit for bit, nor the std engines' own stream operators; hence level 'other'.",
                   outside="bitwise round trip of one number through libstdc++ (denormals, -0, largest finite); std engines",
                   assumptions=DRIVER_ASSUME, jobs=RESUME_JOBS)

ROLLBACK_JOBS = []
for alg in (0, 1, 2):
    for text in (0, 1):
        ROLLBACK_JOBS.append(S("h_driver", drv(3, alg, n=2, cp=1, text=text), ["rollback.serialises_like", "rollback.to_n_changes_nothing",
                                                                                 "rollback.beyond_the_last", "rollback.resuming_reproduces"]))
ROLLBACK_JOBS += [
    S("h_driver", drv(3, 0, n=2, cp=1, hist=1), ["rollback.serialises_like"]),
    S("h_driver", drv(3, 1, n=2, cp=1, hist=1, user=1), ["rollback.serialises_like"]),
    S("h_driver", drv(3, 2, n=2, cp=1, hist=1, user=1), ["rollback.serialises_like"]),
    S("h_driver", drv(3, 1, n=2, cp=2, text=1, user=1), ["rollback.serialises_like"]),
    S("h_driver", drv(3, 2, n=2, cp=2, text=1, user=1), ["rollback.serialises_like"]),
    S("h_driver", drv(3, 0, n=3, cp=1, text=1), ["rollback.serialises_like"]),
    S("h_driver", drv(3, 1, n=3, cp=1, text=1, user=1), ["rollback.serialises_like"], tiers=T),
    S("h_driver", drv(3, 2, n=3, cp=0, text=1, user=1), ["rollback.serialises_like"], tiers=T),
    S("h_driver", drv(3, 2, n=3, cp=0, text=0), ["rollback.serialises_like"], tiers=T),
]
# rollback, then two iterations of another integrand (what was discarded leaves no trace in later adaptation)
OTHER_JOBS = [
    S("h_driver", drv(3, 1, n=2, cp=1, other=1, fk=1, fc=12), ["rollback.continuing_with_another_integrand"], split=4),
    S("h_driver", drv(3, 2, n=2, cp=1, other=1, fk=1, fc=12), ["rollback.continuing_with_another_integrand"], split=4),
    S("h_driver", drv(3, 0, n=2, cp=1, other=1, fk=1, fc=12), ["rollback.continuing_with_another_integrand"]),
    S("h_driver", drv(3, 1, n=2, cp=1, other=1, text=1, user=1, fk=1, fc=12), ["rollback.continuing_with_another_integrand"], tiers=T, split=8),
    S("h_driver", drv(3, 2, n=2, cp=1, other=1, text=1, user=1, fk=1, fc=12), ["rollback.continuing_with_another_integrand"], tiers=T, split=8),
]
ROLLBACK_JOBS += OTHER_JOBS
PLAN["C15"] = dict(functions=DRIVER_FUNCS + ["hep::chkpt<R>::rollback", "hep::chkpt_with_rng<E,C>::rollback", "hep::vegas_chkpt<T>::rollback",
                                             "hep::multi_channel_chkpt<T>::rollback"],
                   bounds={"quick": "histories run(2); [text round trip]; rollback(k) for every k in 0..3; resume; all three integrators, default and "
                                    "user grid / weights with every zero pattern", "thorough": "run(3), k in 0..4"},
                   outside="longer histories; std engines", assumptions=DRIVER_ASSUME, jobs=ROLLBACK_JOBS)

ORDER_JOBS = [
    S("h_driver", drv(4, 0, n=3, cp=1), ["order.callback_once", "order.returned_checkpoint_is"]),
    S("h_driver", drv(4, 1, n=2, cp=1), ["order.callback_once"]),
    S("h_driver", drv(4, 2, n=2, cp=1), ["order.callback_once"]),
    S("h_driver", drv(4, 1, n=3, cp=1, user=1), ["order.callback_once"], tiers=T),
    # iteration lists with entries of zero calls
    S("h_driver", drv(4, 0, n=3, cp=4), ["order.callback_once"]),
    S("h_driver", drv(4, 1, n=3, cp=4), ["order.callback_once"]),
    S("h_driver", drv(4, 2, n=3, cp=4), ["order.callback_once"]),
    S("h_driver", drv(4, 1, n=3, cp=5), ["order.callback_once"]),
    S("h_driver", drv(4, 2, n=3, cp=0, user=1), ["order.callback_once"], tiers=T),
]
STOP_JOBS = [
    S("h_driver", drv(5, 0, n=1, cp=3, fk=5, unit=1), ["builtin.stops_iff"]),
    S("h_driver", drv(5, 0, n=1, cp=3, fk=5, unit=1, t0=1), ["builtin.zero_target_never"]),
    S("h_driver", drv(5, 1, n=1, cp=3, fk=2, unit=1), ["builtin.stops_iff"]),
    S("h_driver", drv(5, 2, n=1, cp=3, fk=2, unit=1), ["builtin.stops_iff"]),
    S("h_driver", drv(5, 0, n=2, cp=3, fk=2, t0=1), ["builtin.zero_target_never"]),
    S("h_driver", drv(5, 1, n=1, cp=3, fk=2, unit=1, t0=1), ["builtin.zero_target_never"]),
    S("h_driver", drv(5, 2, n=2, cp=0, fk=2, t0=1), ["builtin.zero_target_never"]),
    S("h_driver", drv(5, 1, n=2, cp=3, fk=2, t0=1), ["builtin.zero_target_never"], tiers=T, split=8),
    S("h_driver", drv(5, 0, n=2, cp=3, fk=2, unit=1, fc=1), ["builtin.stops_iff"], tiers=T, split=10, timeout_ms=300000),
    S("h_driver", drv(5, 0, n=2, cp=3, fk=2, fc=2), ["builtin.at_least_one"], tiers=T, split=8, timeout_ms=120000),
]
PLAN["C12"] = dict(functions=DRIVER_FUNCS + ["hep::callback<Checkpoint>::operator()", "hep::weighted_with_variance", "hep::create_result"],
                   bounds={"quick": "n<=3 iterations, callback answers: every true/false sequence; built-in callback: target symbolic in (0,1] and "
                                    "target 0, 1 result of 2 calls with every value kind {0, finite, NaN, +-inf} (decision observed directly), "
                                    "2 iterations for target 0", "thorough": "2 results for the positive target"},
                   outside="more iterations; MPI forms are in C04's harness; verbose modes in C20",
                   assumptions=DRIVER_ASSUME, jobs=ORDER_JOBS + STOP_JOBS)

STATE_JOBS = [
    S("h_driver", drv(7, 1, n=2, cp=0, B=3, user=0), ["state.iteration_uses_refinement"]),
    S("h_driver", drv(7, 1, n=2, cp=1, user=1), ["state.first_iteration_uses", "state.iteration_uses_refinement"]),
    S("h_driver", drv(7, 1, n=2, cp=1, user=0), ["state.first_iteration_uses", "state.iteration_uses_refinement"]),
    S("h_driver", drv(7, 2, n=2, cp=1, user=1), ["state.first_iteration_uses", "state.iteration_uses_refinement"]),
    S("h_driver", drv(7, 2, n=2, cp=1, user=0), ["state.first_iteration_uses", "state.iteration_uses_refinement"]),
    S("h_driver", drv(7, 1, n=3, cp=0, user=1, fk=1), ["state.iteration_uses_refinement"], tiers=T, split=12),
    S("h_driver", drv(7, 2, n=3, cp=0, user=1, fk=1), ["state.iteration_uses_refinement"], tiers=T, split=12),
    S("h_driver", drv(7, 1, n=2, cp=0, user=1, B=3), ["state.iteration_uses_refinement"], tiers=T),
]
PLAN["C19"] = dict(functions=DRIVER_FUNCS, bounds=DRIVER_BOUNDS, outside="more iterations; the MPI variants are checked in C04's harness",
                   assumptions=DRIVER_ASSUME,
                   jobs=STATE_JOBS + only(KERNEL_JOBS, lambda j: j["cfg"]["ob"] == 3)
                   + only(ITERATION_JOBS, lambda j: j["cfg"]["alg"] in (1, 2) and j["cfg"].get("N", 0) >= 1 and "quick" in j["tiers"]))

MODES_JOBS = [
    S("h_driver", drv(6, 0, n=2, cp=3, fk=2), ["modes.returned_checkpoint_identical", "modes.file_holds"]),
    S("h_driver", drv(6, 1, n=1, cp=3, fk=2), ["modes.returned_checkpoint_identical"]),
    S("h_driver", drv(6, 2, n=2, cp=0, fk=2), ["modes.returned_checkpoint_identical"]),
    S("h_driver", drv(6, 0, n=1, cp=3, fk=5, t0=0), ["modes.returned_checkpoint_identical"]),
    S("h_driver", drv(6, 2, n=1, cp=0, fk=2, C=2, user=1), ["modes.returned_checkpoint_identical"], split=4),
    S("h_driver", drv(6, 2, n=1, cp=0, fk=2, C=3, user=1), ["modes.returned_checkpoint_identical"], tiers=T, split=12, timeout_ms=600000),
    # iterations without calls
    S("h_driver", drv(6, 0, n=3, cp=4, fk=2), ["modes.returned_checkpoint_identical"]),
    S("h_driver", drv(6, 1, n=2, cp=5, fk=2), ["modes.returned_checkpoint_identical"]),
    S("h_driver", drv(6, 2, n=2, cp=4, fk=2), ["modes.returned_checkpoint_identical"]),
    S("h_driver", drv(6, 1, n=2, cp=3, fk=2), ["modes.returned_checkpoint_identical"], tiers=T, split=12),
    S("h_driver", drv(6, 2, n=1, cp=3, fk=2, C=3, user=1), ["modes.returned_checkpoint_identical"], tiers=T, split=12),
    S("h_driver", drv(6, 1, n=2, cp=0, fk=5), ["modes.returned_checkpoint_identical"], tiers=T, split=8),
]
PLAN["C20"] = dict(functions=DRIVER_FUNCS + ["hep::callback<Checkpoint>::operator() (all four modes)", "hep::multi_channel_summary",
                                             "hep::multi_channel_weight_info", "hep::multi_channel_max_difference", "hep::make_list_of_ranges",
                                             "hep::chi_square_dof"],
                   bounds={"quick": "n<=2 iterations of 1-2 calls, the four modes on the same symbolic inputs, C<=3 channels with every zero pattern",
                           "thorough": "value kinds incl. non-finite for VEGAS; 2 iterations with 3 channels"},
                   outside="many channels (> 2*5+1 printable: index arithmetic of the summary, see summary harness); MPI (C04 harness)",
                   assumptions=DRIVER_ASSUME + ["std::cout is redirected into a string; the checkpoint file is a scratch file under out/"],
                   jobs=MODES_JOBS)

POISON_JOBS = [
    S("h_driver", drv(8, 0, n=1, cp=3, fk=5, dist=5, dx=0), ["poison.results_identical"], split=4),
    S("h_driver", drv(8, 0, n=2, cp=0, fk=5, dist=5, dx=1), ["poison.results_identical"], tiers=T, split=12),
    S("h_driver", drv(8, 1, n=2, cp=0, fk=5), ["poison.adaptation_identical"]),
    S("h_driver", drv(8, 2, n=2, cp=0, fk=5), ["poison.adaptation_identical"]),
    S("h_driver", drv(8, 1, n=2, cp=1, fk=5, user=1), ["poison.adaptation_identical"], tiers=T),
    S("h_driver", drv(8, 2, n=2, cp=1, fk=5, user=1), ["poison.adaptation_identical"], tiers=T),
    S("h_driver", drv(8, 1, n=3, cp=0, fk=5), ["poison.adaptation_identical"], tiers=T),
]
PLAN["C06"]["jobs"] = ITERATION_JOBS + POISON_JOBS
PLAN["C06"]["functions"] = sorted(set(PLAN["C06"]["functions"] + DRIVER_FUNCS))

HELPER_JOBS = [
    S("h_helpers", dict(ob=0, m=0), ["weighted.counters"]),
    S("h_helpers", dict(ob=0, m=1), ["weighted.estimate_is"]),
    S("h_helpers", dict(ob=0, m=2), ["weighted.estimate_is"]),
    S("h_helpers", dict(ob=0, m=3), ["weighted.estimate_is", "weighted.independent_of_the_order"]),
    S("h_helpers", dict(ob=0, m=3, big=1), ["weighted.error_is"]),
    S("h_helpers", dict(ob=1, m=0), ["equal.no_results"]),
    S("h_helpers", dict(ob=1, m=1), ["equal.single_result"]),
    S("h_helpers", dict(ob=1, m=2), ["equal.estimate_is_the_mean"]),
    S("h_helpers", dict(ob=1, m=3), ["equal.error_is_the_standard_error"]),
    S("h_helpers", dict(ob=1, m=3, big=1), ["equal.error_is_the_standard_error"]),
    S("h_helpers", dict(ob=2, m=0), ["chi.zero_for_no_result"]),
    S("h_helpers", dict(ob=2, m=1), ["chi.infinite_for_one_result"]),
    S("h_helpers", dict(ob=2, m=2), ["chi.documented_formula"]),
    S("h_helpers", dict(ob=2, m=3), ["chi.documented_formula"]),
    S("h_helpers", dict(ob=3, m=2), ["distributions.same_rule"]),
    S("h_helpers", dict(ob=3, m=2, by=2), ["distributions.same_rule"]),
    S("h_helpers", dict(ob=4), ["create_result.variance"]),
    S("h_helpers", dict(ob=4, big=1), ["create_result.variance"]),
    S("h_helpers", dict(ob=0, m=4), ["weighted.independent_of_the_order"], timeout_ms=300000),
    S("h_helpers", dict(ob=1, m=4), ["equal.error_is_the_standard_error"], tiers=T),
    S("h_helpers", dict(ob=3, m=3), ["distributions.same_rule"], tiers=T),
]
PLAN["C13"] = dict(
    functions=["hep::weighted_with_variance", "hep::weighted_equally", "hep::chi_square_dof", "hep::hep_distribution_accumulator",
               "hep::accumulate", "hep::create_result", "hep::mc_result<T>::value/variance/error"],
    bounds={"quick": "0..3 results, every pattern of results without non-zero calls, estimates in [-1e6,1e6] and errors in (0,1e6] symbolic, "
                     "call counts {2,3,5} and {2e9+..} (sums beyond 2^32), all 6 permutations; 2 results x 1 distribution x 2 bins",
            "thorough": "0..4 results (24 permutations), 3 results with distributions"},
    outside="more results; conditioning of (value,error)<->(sum,sumsq) in floating point (exact reals)",
    assumptions=COMMON_ASSUME[:2], jobs=HELPER_JOBS)
PLAN["C12"]["jobs"] = PLAN["C12"]["jobs"] + only(HELPER_JOBS, lambda j: j["cfg"]["ob"] == 0 and "quick" in j["tiers"])

DIST_JOBS = [
    S("h_distribution", dict(ob=0, bx=1, N=1), ["bin.holds_exactly"]),
    S("h_distribution", dict(ob=0, bx=2, N=1), ["bin.holds_exactly", "midpoints.slot_order"]),
    S("h_distribution", dict(ob=0, bx=3, N=1), ["bin.holds_exactly"]),
    S("h_distribution", dict(ob=0, bx=2, N=2), ["bin.holds_exactly"]),
    S("h_distribution", dict(ob=0, bx=2, N=1, xk=1), ["bin.holds_exactly"]),
    S("h_distribution", dict(ob=0, bx=2, N=1, xk=2), ["bin.holds_exactly"]),
    S("h_distribution", dict(ob=0, bx=2, N=1, xk=3), ["bin.holds_exactly"]),
    S("h_distribution", dict(ob=1, bx=2, by=2, N=1), ["bin.holds_exactly", "midpoints.slot_order"]),
    S("h_distribution", dict(ob=1, bx=2, by=1, N=1, xk=1), ["bin.holds_exactly"]),
    S("h_distribution", dict(ob=1, bx=2, by=2, N=1, yk=1), ["bin.holds_exactly"]),
    S("h_distribution", dict(ob=1, bx=2, by=2, N=1, yk=3), ["bin.holds_exactly"]),
    S("h_distribution", dict(ob=1, bx=1, by=2, N=1, xk=3), ["bin.holds_exactly"]),
    S("h_distribution", dict(ob=2, N=1), ["several.each_bin_of_each_distribution"]),
    S("h_distribution", dict(ob=2, N=2), ["several.each_bin_of_each_distribution"], tiers=T, split=8),
    S("h_distribution", dict(ob=0, bx=3, N=2), ["bin.holds_exactly"], tiers=T),
    S("h_distribution", dict(ob=0, bx=4, N=1), ["bin.holds_exactly"], tiers=T),
    S("h_distribution", dict(ob=1, bx=3, by=2, N=1), ["bin.holds_exactly"], tiers=T),
    S("h_distribution", dict(ob=1, bx=2, by=2, N=2), ["bin.holds_exactly"], tiers=T, split=8),
]
PLAN["C11"] = dict(
    functions=["hep::accumulator<T,true>::invoke", "hep::accumulator<T,true>::add_to_1d_distribution", "hep::accumulator<T,true>::add_to_2d_distribution",
               "hep::accumulator<T,true>::result", "hep::projector<T>::add", "hep::distribution_parameters<T>", "hep::mid_points_x", "hep::mid_points_y"],
    bounds={"quick": "1-d with 1..3 bins, 2-d with up to 2x2 bins, 1-2 calls; range end points in [-1e3,1e3], coordinates in [-1e6,1e6] or +inf/-inf/NaN, "
                     "projected value, integrand value and point weight symbolic", "thorough": "1-d 4 bins, 2-d 3x2, 2 calls in 2-d"},
    outside="more bins / calls / several distributions per integrand; rounding at bin edges (exact reals decide the half-open interval exactly, the "
            "property allows either neighbour within one rounding error)",
    assumptions=COMMON_ASSUME[:1] + ["T -> size_t conversion of NaN, infinity, values <= -1 or >= 2^64 is flagged as undefined behaviour (UB-class violation)"],
    jobs=DIST_JOBS + only(ITERATION_JOBS, lambda j: j["cfg"].get("dist", 0) != 0 and "quick" in j["tiers"]))


def I(kind, label, tiers=Q, **kw):
    d = dict(route="I", kind=kind, label=label, harness="route_i:" + kind, cfg={}, tiers=tiers)
    d.update(kw)
    return d


PLAN["C16"] = dict(
    level="proof", engine="route-I",
    technique="LLVM IR of the real functions -> SMT-LIB2 (own translator, bit-vector and wrap-around integer encodings), induction step over the "
              "rank decided by z3 / cvc5 for all 64-bit values",
    functions=["hep::discard_before", "hep::discard_after", "documented share q + (rank < total % world) (the sub_calls expression of the drivers; "
               "that the drivers use this expression is checked for small sizes in C04's harness)"],
    bounds={"quick": "none on total / rank / world beyond 64-bit machine integers (world >= 1, rank < world); per query cap 60 s",
            "thorough": "same, cap 600 s"},
    outside="products usage * before(...) exceeding 2^64 in the drivers",
    assumptions=["division by zero excluded (world >= 1)", "clang -O1 IR of the wrappers is the code under test (translator validated against the g++ build on 8 vectors)"],
    trusted_base=["clang++ 14 (IR)", "ir/ir2smt.py (validated per run against the g++ build)", "z3 4.8.12 / z3 5.1.0 / cvc5 1.0.3"],
    level_text="induction step over the rank for unbounded (64-bit) total, world, rank: proves tiling for every world size",
    jobs=[I("split", "split:all-64-bit")],
)

# ---------------------------------------------------------------------------------------------
import os as _os
HARNESS_FLAGS["h_mpi"] = ["-I" + _os.path.join(_os.path.dirname(_os.path.abspath(__file__)), "sym", "mpi_stub")]


def mpi(ob, alg, **kw):
    c = dict(ob=ob, alg=alg)
    c.update(kw)
    return c


MPI_EQ = ["mpi.ranks_evaluate_exactly", "mpi.every_rank_returns", "mpi.rank_shares_follow", "mpi.all_ranks_execute_the_same"]
MPI_JOBS = [
    S("h_mpi", mpi(0, 0, P=1, n=2, tc=1), MPI_EQ),
    S("h_mpi", mpi(0, 0, P=2, n=2, tc=1), MPI_EQ),
    S("h_mpi", mpi(0, 0, P=3, n=2, tc=1), MPI_EQ),
    S("h_mpi", mpi(0, 0, P=3, n=2, tc=4), MPI_EQ),
    S("h_mpi", mpi(0, 0, P=3, n=2, tc=3), MPI_EQ),
    S("h_mpi", mpi(0, 0, P=4, n=1, tc=5), MPI_EQ),
    S("h_mpi@64", mpi(0, 0, P=2, n=2, tc=1), MPI_EQ),
    S("h_mpi@24", mpi(0, 0, P=3, n=1, tc=3), MPI_EQ),
    S("h_mpi@64", mpi(0, 2, P=2, n=1, tc=1, fk=1), MPI_EQ),
    S("h_mpi", mpi(0, 0, P=2, n=2, tc=2, dist=1, fk=1), MPI_EQ),
    S("h_mpi", mpi(0, 0, P=2, n=1, tc=2, dist=1, dist2=1, fk=1), MPI_EQ),     # two distributions (only the first is filled)
    S("h_mpi", mpi(0, 2, P=2, n=1, tc=1, fk=1, d=1, md=2), MPI_EQ),     # the map produces more / fewer coordinates than it consumes random numbers
    S("h_mpi", mpi(0, 2, P=2, n=1, tc=1, fk=1, d=2, md=1), MPI_EQ),
    S("h_mpi", mpi(0, 1, P=2, n=1, tc=2, dist=1, dist2=1, fk=1), MPI_EQ),
    S("h_mpi", mpi(0, 1, P=2, n=2, tc=0, fk=1), MPI_EQ),
    S("h_mpi", mpi(0, 1, P=3, n=1, tc=2, fk=1), MPI_EQ),
    S("h_mpi", mpi(0, 1, P=2, n=2, tc=0, fk=1, user=1), MPI_EQ),
    S("h_mpi", mpi(0, 2, P=2, n=2, tc=0, fk=1), MPI_EQ),
    S("h_mpi", mpi(0, 2, P=3, n=1, tc=2, fk=1, user=1), MPI_EQ),
    S("h_mpi", mpi(1, 0, P=2, n=2, tc=3, fk=2, t0=1), ["mpi.stops_like_the_serial_run"]),
    S("h_mpi", mpi(1, 1, P=2, n=2, tc=0, fk=2, t0=1), ["mpi.stops_like_the_serial_run"]),
    S("h_mpi", mpi(1, 2, P=2, n=2, tc=0, fk=2, t0=1), ["mpi.stops_like_the_serial_run"]),
    S("h_mpi", mpi(2, 0, P=2, n=1, tc=3), ["mpi.only_rank_zero_prints"]),
    S("h_mpi", mpi(2, 2, P=2, n=1, tc=1), ["mpi.only_rank_zero_prints"]),
    # thorough
    S("h_mpi", mpi(0, 0, P=4, n=3, tc=1), MPI_EQ, tiers=T),
    S("h_mpi", mpi(0, 0, P=4, n=2, tc=5, fk=2), MPI_EQ, tiers=T, split=8),
    S("h_mpi", mpi(0, 1, P=2, n=2, tc=1, fk=1), MPI_EQ, tiers=T, split=12),
    S("h_mpi", mpi(0, 1, P=3, n=2, tc=2, fk=1, user=1), MPI_EQ, tiers=T, split=12),
    S("h_mpi", mpi(0, 2, P=2, n=2, tc=2, fk=1), MPI_EQ, tiers=T, split=8),
    S("h_mpi", mpi(0, 2, P=4, n=1, tc=5, fk=1, user=1), MPI_EQ, tiers=T, split=12),
    S("h_mpi", mpi(1, 0, P=2, n=2, tc=3, fk=2, fc=4), ["mpi.stops_like_the_serial_run"], tiers=T, split=12, timeout_ms=300000),
    S("h_mpi", mpi(2, 1, P=2, n=1, tc=1), ["mpi.only_rank_zero_prints"], tiers=T),
]
PLAN["C04"] = dict(
    functions=["hep::mpi_plain", "hep::mpi_vegas", "hep::mpi_multi_channel", "hep::allreduce_result", "hep::mpi_callback<Checkpoint>",
               "hep::discard_before", "hep::discard_after", "hep::random_number_usage", "hep::mpi_datatype"] + DRIVER_FUNCS,
    bounds={"quick": "world size P<=4, 1-3 iterations, total calls per iteration in {0..5} (incl. calls < P and calls not divisible by P), d=1, B=2, C=2; "
                     "all random numbers / integrand values / grids / weights symbolic; serial run and all ranks on the same symbolic stream",
            "thorough": "P<=4, up to 3 iterations, 5 calls"},
    outside="larger P (the split itself is proved for all P in C16); real mpirun; arrival and reduction order inside a collective (the shim sums in rank "
            "order; in exact reals the order does not matter); std engines (the stub engine counts positions; draws per canonical number: C10)",
    assumptions=DRIVER_ASSUME + ["MPI shim: ranks are coroutines switched at MPI_Allreduce; MPI_Allreduce(MPI_IN_PLACE, SUM) adds element-wise over the ranks and "
                                 "gives every rank the result; a rank returning while another waits in a collective is reported as a hang"],
    jobs=MPI_JOBS)
for _p in ("C12", "C19", "C20", "C16"):
    pass
PLAN["C12"]["jobs"] = PLAN["C12"]["jobs"] + only(MPI_JOBS, lambda j: j["cfg"]["ob"] in (0, 1) and "quick" in j["tiers"] and j["cfg"].get("P") == 2)
PLAN["C19"]["jobs"] = PLAN["C19"]["jobs"] + only(MPI_JOBS, lambda j: j["cfg"]["ob"] == 0 and j["cfg"]["alg"] in (1, 2) and "quick" in j["tiers"])
PLAN["C20"]["jobs"] = PLAN["C20"]["jobs"] + only(MPI_JOBS, lambda j: j["cfg"]["ob"] == 2)
PLAN["C16"]["jobs"] = PLAN["C16"]["jobs"] + only(MPI_JOBS, lambda j: j["cfg"]["ob"] == 0 and j["cfg"]["alg"] == 0 and "quick" in j["tiers"])
PLAN["C16"]["level"] = "proof"

HARNESS_LIBS["h_crash"] = ["-ldl"]
CRASH_EXPECT = ["crash.before_open_trunc", "crash.before_write", "crash.inside_a_write", "crash.before_close", "file.holds_the_last"]
CRASH_JOBS = [
    S("h_crash", dict(alg=0, n=2, cp=0), CRASH_EXPECT),
    S("h_crash", dict(alg=1, n=2, cp=0), CRASH_EXPECT),
    S("h_crash", dict(alg=2, n=2, cp=0), CRASH_EXPECT),
    S("h_crash", dict(alg=0, n=2, cp=0, stale=1), CRASH_EXPECT),
    S("h_crash", dict(alg=0, n=2, cp=0, dist=1, fk=1, name=6), CRASH_EXPECT),
    S("h_crash", dict(alg=1, n=2, cp=0, dist=1, fk=1, name=6, stale=1), CRASH_EXPECT),
    S("h_crash", dict(alg=0, n=3, cp=1, stale=1), CRASH_EXPECT, tiers=T),
    S("h_crash", dict(alg=1, n=3, cp=0, user=1), CRASH_EXPECT, tiers=T),
    S("h_crash", dict(alg=2, n=3, cp=0, user=1, dist=1, fk=1, name=6), CRASH_EXPECT, tiers=T),
]
PLAN["C18"] = dict(
    level="other",
    explanation="The real callback / serialize / libstdc++ filebuf code runs; the libc calls it makes on the checkpoint files (fopen64, write, writev, fclose, "
                "rename, remove) are interposed and recorded as events on an in-memory file model with the documented contract (open for writing truncates "
                "or creates, write stores bytes at the file position, rename replaces atomically). Every crash point - before each event, and after a "
                "symbolic number p of bytes of each write - is an obligation decided by z3 (file absent, or token-wise identical to the previous or the new "
                "checkpoint text). Counterexamples are replayed by really killing a forked child at that call on a real file. Level 'other' because the "
                "file system contract (atomic rename, no reordering by the kernel / disk cache) is assumed, not encoded.",
    functions=["hep::callback<Checkpoint>::operator() (write modes)", "Checkpoint::serialize", "libstdc++ basic_filebuf (runs concretely)"] + DRIVER_FUNCS[:8],
    bounds={"quick": "2 iterations, three integrators, checkpoint text from ~40 bytes to > 40 kB (several write calls: longer than the stream buffer), with and "
                     "without a stale temporary file left by an earlier kill; crash before every libc call and after p bytes of every write, p symbolic",
            "thorough": "3 iterations"},
    outside="power loss / kernel write-back ordering (needs fsync: not claimed); more iterations",
    assumptions=DRIVER_ASSUME + ["file system contract: open('w') truncates or creates, write appends at the position, rename is atomic, a killed process's "
                                 "completed writes are visible (process kill, not power loss)"],
    jobs=CRASH_JOBS)

CANON_JOBS = []
for _fl in ("24", "53", "64"):
    for _e in range(12):
        CANON_JOBS.append(S("h_canonical@" + _fl, dict(e=_e), ["canonical.raw_draws_per_number", "stub_engine_advance"]))
PLAN["C10"]["jobs"] = PLAN["C10"]["jobs"] + CANON_JOBS
# a weight vector without an enabled channel (accepted unless rejected by an exception): consumption unchanged
PLAN["C10"]["jobs"] = PLAN["C10"]["jobs"] + [
    S("h_iteration", it(2, N=2, d=1, C=2, fk=2, jk=1, allzero=1), ["multi_channel.all_zero_weights"]),
    S("h_iteration", it(2, N=1, d=2, C=3, fk=5, jk=1, allzero=1), ["multi_channel.all_zero_weights"]),
]
PLAN["C10"]["functions"] = PLAN["C10"]["functions"] + ["std::generate_canonical<T, digits, Engine> (libstdc++ 12 generic template, run with T = sym::real)",
                                                       "hep::random_number_usage<T, Engine>"]
PLAN["C10"]["outside"] = ("engines of other standard libraries; the engines' own state transition (only min()/max() matter for the draw count); "
                          "the rounding-only fix-up branch (result >= 1) is infeasible in exact reals - it draws nothing either way")
PLAN["C10"]["bounds"] = {"quick": ITER_BOUNDS["quick"] + "; draw counts: float/double/long double digits x the (min,max) ranges of all standard engines and 7 "
                                  "synthetic ranges, every engine output symbolic", "thorough": ITER_BOUNDS["thorough"]}
PLAN["C04"]["jobs"] = PLAN["C04"]["jobs"] + only(CANON_JOBS, lambda j: j["cfg"]["e"] in (1, 2, 3))

# bit-precise flavours (z3 FloatingPoint theory): structural facts of kernels without pow/log and without symbolic x symbolic products
UNIFORM_JOBS = [
    S("h_vegas_pdf", dict(ob=2, Bmin=1, Bmax=40, d=2), ["uniform.grid_starts_at_zero"]),
    S("h_vegas_pdf@24fp", dict(ob=2, Bmin=1, Bmax=300, d=1), ["uniform.grid_starts_at_zero"]),
    S("h_vegas_pdf@53fp", dict(ob=2, Bmin=1, Bmax=300, d=1), ["uniform.grid_starts_at_zero"]),
    S("h_vegas_pdf@24fp", dict(ob=2, Bmin=301, Bmax=1100, d=1), ["uniform.grid_starts_at_zero"], tiers=T),
    S("h_vegas_pdf@53fp", dict(ob=2, Bmin=301, Bmax=1100, d=1), ["uniform.grid_starts_at_zero"], tiers=T),
]
PLAN["C07"]["jobs"] = PLAN["C07"]["jobs"] + UNIFORM_JOBS
PLAN["C07"]["assumptions"] = PLAN["C07"]["assumptions"] + [
    "jobs named @24fp/@53fp use the bit-precise model (IEEE binary32 / binary64, round to nearest even; the x87 80 bit format is not used: z3 4.8.12 returned a spurious model for it that the replay rejected) instead of exact reals"]
FP_SELECT_JOBS = [
    S("h_mc_kernels@24fp", dict(ob=1, C=2), ["select.never_a_disabled"], timeout_ms=120000, tiers=T),
]
PLAN["C09"]["jobs"] = PLAN["C09"]["jobs"] + FP_SELECT_JOBS

PLAN["C20"]["jobs"] = PLAN["C20"]["jobs"] + [
    S("h_driver", dict(ob=9, Cmin=1, Cmax=16), ["summary.prints_without_error"]),
    S("h_driver", dict(ob=9, Cmin=17, Cmax=40), ["summary.prints_without_error"], tiers=T),
]
PLAN["C20"]["bounds"]["quick"] += "; weight summary: 1..16 channels x every number of disabled channels x 3 rotations, concrete weights 1:2:3:... (index arithmetic only, decided by constant folding)"
PLAN["C08"]["jobs"] = PLAN["C08"]["jobs"] + only(MPI_JOBS, lambda j: j["cfg"]["ob"] == 0 and j["cfg"]["alg"] == 2 and "quick" in j["tiers"]) + \
    only(STATE_JOBS, lambda j: j["cfg"]["alg"] == 2 and "quick" in j["tiers"])
PLAN["C07"]["jobs"] = PLAN["C07"]["jobs"] + only(MPI_JOBS, lambda j: j["cfg"]["ob"] == 0 and j["cfg"]["alg"] == 1 and "quick" in j["tiers"]) + \
    only(STATE_JOBS, lambda j: j["cfg"]["alg"] == 1 and "quick" in j["tiers"])

USED_JOBS = [
    S("h_driver", drv(5, 0, n=2, cp=3, fk=2, used=1, fc=2), ["builtin.decision_depends_only"]),
    S("h_driver", drv(5, 0, n=2, cp=3, fk=2, unit=1, fc=2), ["builtin.stops_iff"]),
    S("h_driver", drv(10, 0, n=2, cp=3, fk=2, fc=2), ["resume.with_target_precision"]),
    S("h_driver", drv(5, 0, n=2, cp=3, fk=2, used=1, t0=1), ["builtin.decision_depends_only"]),
]
PLAN["C12"]["jobs"] = PLAN["C12"]["jobs"] + USED_JOBS
PLAN["C03"]["jobs"] = PLAN["C03"]["jobs"] + USED_JOBS

ENGINE_JOBS = []
for _e in range(9):
    ENGINE_JOBS.append(S("h_engines", dict(e=_e, alg=0, n=2, cp=1), ["engine.checkpoint_with_generators", "engine.generator_after_the_run"]))
for _e in (0, 2, 3, 6, 8):
    ENGINE_JOBS.append(S("h_engines", dict(e=_e, alg=1, n=2, cp=0), ["engine.checkpoint_with_generators"]))
    ENGINE_JOBS.append(S("h_engines", dict(e=_e, alg=2, n=2, cp=0), ["engine.checkpoint_with_generators"]))
for _fl in ("24", "64"):
    for _e in (1, 2, 4, 7):
        ENGINE_JOBS.append(S("h_engines@" + _fl, dict(e=_e, alg=0, n=2, cp=1), ["engine.generator_after_the_run"]))
for _e in range(9):
    ENGINE_JOBS.append(S("h_engines", dict(e=_e, alg=1, n=3, cp=1, user=1), ["engine.checkpoint_with_generators"], tiers=T))
    ENGINE_JOBS.append(S("h_engines@64", dict(e=_e, alg=2, n=2, cp=1, user=1), ["engine.checkpoint_with_generators"], tiers=T))
for _p in ("C03", "C05", "C10"):
    PLAN[_p]["jobs"] = PLAN[_p]["jobs"] + ENGINE_JOBS
    PLAN[_p]["functions"] = PLAN[_p]["functions"] + ["hep::chkpt_with_rng<E,C> with E = every standard engine (concrete engine, its own operator<< / >> / discard / ==)"]
PLAN["C05"]["explanation"] = PLAN["C05"]["explanation"].replace("nor the std engines' own stream operators; hence", "the std engines run concretely "
    "(their own stream operators are exercised for the states a 2-3 iteration run reaches, not for all states); hence")

RESUME_DIST2 = [S("h_driver", drv(0, 0, n=2, cp=1, dist=1, dist2=1, fk=1, name=_nm), ["resume.final_text_identical", "final_checkpoint.read_back"]) for _nm in (2, 3, 1)]
RESUME_DIST2.append(S("h_driver", drv(0, 1, n=1, cp=1, dist=1, dist2=1, fk=1, name=2), ["final_checkpoint.read_back"]))
PLAN["C03"]["jobs"] = PLAN["C03"]["jobs"] + RESUME_DIST2
PLAN["C05"]["jobs"] = PLAN["C05"]["jobs"] + RESUME_DIST2
DISTBIN_JOBS = [
    S("h_iteration", it(2, N=1, d=1, C=2, fk=2, jk=5, pz=1, dist=1, dx=0), ["distribution.bins_stay_finite"]),
    S("h_iteration", it(2, N=2, d=1, C=2, fk=2, jk=2, pz=1, dist=1, dx=0), ["distribution.bins_stay_finite"], tiers=T, split=8),
]
PLAN["C06"]["jobs"] = PLAN["C06"]["jobs"] + DISTBIN_JOBS
PLAN["C11"]["jobs"] = PLAN["C11"]["jobs"] + DISTBIN_JOBS
MPI_B3 = [S("h_mpi", mpi(0, 1, P=2, n=2, tc=0, fk=1, B=3), MPI_EQ), S("h_mpi", mpi(0, 1, P=3, n=2, tc=0, fk=1, B=3), MPI_EQ, tiers=T, split=12)]
for _p in ("C04", "C19", "C07"):
    PLAN[_p]["jobs"] = PLAN[_p]["jobs"] + MPI_B3
PLAN["C20"]["jobs"] = PLAN["C20"]["jobs"] + [S("h_driver", drv(6, 0, n=1, cp=3, fk=2, unit=1), ["modes.decision_identical"]),
                                             S("h_driver", drv(6, 1, n=1, cp=3, fk=2, unit=1), ["modes.decision_identical"]),
                                             S("h_mpi", mpi(1, 0, P=2, n=2, tc=3, fk=2, fc=4), ["mpi.stops_like_the_serial_run"], split=4)]

FP_DIST_JOBS = [
    S("h_distribution@24fp", dict(ob=0, bx=3, N=1, crange=1), ["bitprecise.exactly_one_bin"], timeout_ms=120000),
    S("h_distribution@24fp", dict(ob=0, bx=2, N=1, crange=1, xk=1), ["bitprecise.exactly_one_bin"], timeout_ms=120000),
    S("h_distribution@24fp", dict(ob=0, bx=2, N=1, crange=1, xk=3), ["bitprecise.exactly_one_bin"], timeout_ms=120000),
    S("h_distribution@53fp", dict(ob=0, bx=3, N=1, crange=1), ["bitprecise.exactly_one_bin"], tiers=T, timeout_ms=600000),
    S("h_distribution@24fp", dict(ob=0, bx=4, N=1, crange=1), ["bitprecise.exactly_one_bin"], tiers=T, timeout_ms=600000),
]
PLAN["C11"]["jobs"] = PLAN["C11"]["jobs"] + FP_DIST_JOBS
PLAN["C11"]["assumptions"] = PLAN["C11"]["assumptions"] + ["jobs named @24fp/@53fp: bit-precise IEEE binary32/binary64 model, range [0,1) with 2-4 bins, "
    "coordinate symbolic: exactly one bin inside the range, none outside, hit bin = bin of the coordinate or a neighbour (the property's edge tolerance)"]

MPI_SCRIPTED = [
    S("h_mpi", mpi(3, 0, P=2, n=3, tc=1), ["mpi.stops_like_the_serial_run", "mpi.callback_invoked_once"]),
    S("h_mpi", mpi(3, 0, P=3, n=3, tc=3), ["mpi.stops_like_the_serial_run"]),
    S("h_mpi", mpi(3, 1, P=2, n=2, tc=0, fk=1, B=3), ["mpi.stops_like_the_serial_run"]),
    S("h_mpi", mpi(3, 2, P=2, n=2, tc=0, fk=1), ["mpi.stops_like_the_serial_run"]),
]
PLAN["C12"]["jobs"] = PLAN["C12"]["jobs"] + MPI_SCRIPTED
PLAN["C04"]["jobs"] = PLAN["C04"]["jobs"] + MPI_SCRIPTED[:2]

PLAN["C19"]["jobs"] = PLAN["C19"]["jobs"] + [S("h_driver", drv(7, 1, n=2, cp=2, B=3, user=0), ["state.iteration_uses_refinement"], split=4)]
PLAN["C07"]["jobs"] = PLAN["C07"]["jobs"] + [S("h_driver", drv(7, 1, n=2, cp=2, B=3, user=0), ["state.iteration_uses_refinement"], split=4)]
MD_JOBS = [S("h_iteration", it(2, N=1, d=1, md=2, C=2, fk=2, jk=1), ["multi_channel.d_plus_one_canonical", "multi_channel.coordinate_buffer"]),
           S("h_iteration", it(2, N=2, d=2, md=1, C=2, fk=2, jk=1), ["multi_channel.d_plus_one_canonical"])]
for _p in ("C10", "C17", "C02"):
    PLAN[_p]["jobs"] = PLAN[_p]["jobs"] + MD_JOBS
PLAN["C18"]["jobs"] = PLAN["C18"]["jobs"] + [S("h_crash", dict(alg=0, n=2, cp=0, notmp=1), ["crash.without_a_temporary_file"]),
                                             S("h_crash", dict(alg=1, n=2, cp=0, notmp=1, dist=1, fk=1, name=6), ["crash.without_a_temporary_file"])]

PLAN["C16"]["jobs"] = PLAN["C16"]["jobs"] + [I("share", "share:drivers-ir-slice")]
PLAN["C16"]["functions"] = PLAN["C16"]["functions"] + ["the i64 value handed to plain_iteration / vegas_iteration / multi_channel_iteration inside hep::mpi_plain / "
    "mpi_vegas / mpi_multi_channel (backward slice of the clang -O1 -fno-inline IR over loads of rank, world and the call count)"]
PLAN["C04"]["jobs"] = PLAN["C04"]["jobs"] + [I("share", "share:drivers-ir-slice")]

FP_PLAIN_JOBS = [
    S("h_iteration@24fp", it(0, N=1, d=2, fk=5), ["iteration.sum_is_sum"]),
    S("h_iteration@53fp", it(0, N=1, d=1, fk=5), ["iteration.sum_is_sum"]),
    S("h_iteration@24fp", it(0, N=2, d=1, fk=5), ["iteration.sum_is_sum"], tiers=T, timeout_ms=600000),
]
for _p in ("C02", "C06"):
    PLAN[_p]["jobs"] = PLAN[_p]["jobs"] + FP_PLAIN_JOBS
    PLAN[_p]["assumptions"] = PLAN[_p]["assumptions"] + ["jobs named @24fp/@53fp: PLAIN iteration in the bit-precise IEEE model (counters, guard against non-finite "
        "values, sums for N <= 2 where compensated and plain summation coincide bit for bit); algebraic identities are not asserted there"]

CR_JOBS = [S("h_iteration", it(2, N=2, d=1, C=2, fk=2, jk=1, cr=1), ["multi_channel.call_protocol_order", "iteration.integrand_called_exactly"])]
for _p in ("C17", "C02"):
    PLAN[_p]["jobs"] = PLAN[_p]["jobs"] + CR_JOBS
PLAN["C11"]["jobs"] = PLAN["C11"]["jobs"] + [S("h_distribution", dict(ob=1, bx=2, by=1, N=1), ["bin.holds_exactly"]),
                                             S("h_distribution", dict(ob=1, bx=3, by=1, N=2), ["bin.holds_exactly"], tiers=T, split=8)]
D2_JOBS = [S("h_driver", drv(0, 1, n=1, cp=0, d=2, user=1), ["final_checkpoint.read_back", "resume.final_text_identical"]),
           S("h_driver", drv(0, 1, n=2, cp=0, d=2, B=2), ["final_checkpoint.read_back"], split=4)]
for _p in ("C03", "C05"):
    PLAN[_p]["jobs"] = PLAN[_p]["jobs"] + D2_JOBS

PLAN["C07"]["jobs"] = PLAN["C07"]["jobs"] + [j for j in OTHER_JOBS if j["cfg"]["alg"] == 1]
PLAN["C08"]["jobs"] = PLAN["C08"]["jobs"] + [j for j in OTHER_JOBS if j["cfg"]["alg"] == 2]

# the checkpoint object driven directly: add(zero data); pdf()/channel_weights(); rollback(0); add(symbolic data); pdf()/channel_weights()
OBJECT_V = [S("h_driver", drv(11, 1, B=3, d=1), ["object.next_grid_is_the_refinement"]),
            S("h_driver", drv(11, 1, B=2, d=2), ["object.next_grid_is_the_refinement"]),
            S("h_driver", drv(11, 1, B=3, d=1, user=1), ["object.next_grid_is_the_refinement"]),
            S("h_driver", drv(11, 1, B=4, d=1), ["object.next_grid_is_the_refinement"], tiers=T, split=8)]
OBJECT_M = [S("h_driver", drv(11, 2, C=3), ["object.next_weights_are_the_refinement"]),
            S("h_driver", drv(11, 2, C=2, user=1), ["object.next_weights_are_the_refinement"]),
            S("h_driver", drv(11, 2, C=3, user=1), ["object.next_weights_are_the_refinement"], tiers=T, split=8)]
PLAN["C07"]["jobs"] = PLAN["C07"]["jobs"] + OBJECT_V
PLAN["C08"]["jobs"] = PLAN["C08"]["jobs"] + OBJECT_M
PLAN["C15"]["jobs"] = PLAN["C15"]["jobs"] + OBJECT_V + OBJECT_M
PLAN["C19"]["jobs"] = PLAN["C19"]["jobs"] + OBJECT_V + OBJECT_M

# results with more than 2^32 calls: variance() / error() (C02's formulas for every N >= 2)
PLAN["C02"]["jobs"] = PLAN["C02"]["jobs"] + only(HELPER_JOBS, lambda j: j["cfg"]["ob"] == 4)
# first grid / weights after rollbacks of a reloaded checkpoint (C19: the first iteration uses the user's or the default state)
PLAN["C19"]["jobs"] = PLAN["C19"]["jobs"] + only(ROLLBACK_JOBS, lambda j: j["cfg"].get("text") == 1 and j["cfg"]["n"] == 2 and j["cfg"]["alg"] in (1, 2)
                                                  and "quick" in j["tiers"] and not j["cfg"].get("other"))
OBJECT_P = [S("h_driver", drv(11, 0), ["object.rollback_beyond_the_last_iteration_of_an_empty"])]
PLAN["C15"]["jobs"] = PLAN["C15"]["jobs"] + OBJECT_P

PLAN["C13"]["jobs"] = PLAN["C13"]["jobs"] + [S("h_helpers", dict(ob=3, m=2, nd=2), ["distributions.every_distribution_keeps"])]
