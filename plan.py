"""plan.py - which obligations decide which property, per tier (see DESIGN.md section 3)"""

HARNESS_FLAGS = {}
HARNESS_LIBS = {}

Q = ("quick", "thorough")
T = ("thorough",)


def S(harness, cfg, expect=(), tiers=Q, **kw):
    d = dict(route="S", harness=harness, cfg=cfg, expect=list(expect), tiers=tiers)
    d.update(kw)
    return d


ICDF_EXPECT = ["icdf.bin_below_bins", "icdf.point_inside_reported_bin", "icdf.weight_is_product",
               "icdf.bin_is_floor_u_times_bins"]
REFINE_EXPECT = ["refine.starts_at_zero", "refine.ends_at_one", "refine.non_decreasing",
                 "refine.equal_share_of_importance", "refine.boundaries_finite"]

PLAN = {}

PLAN["C07"] = dict(
    level="model_checking",
    functions=["hep::vegas_pdf<T>::vegas_pdf", "hep::vegas_icdf<T>", "hep::vegas_refine_pdf<T>",
               "hep::vegas_point<T>::vegas_point"],
    bounds={"quick": "bins B<=3 (refine), B<=4 (icdf), dimensions d<=2; all grids, data>=0, alpha in [0,3], u in [0,1] symbolic",
            "thorough": "bins B<=4 (refine; B=5 single dimension), B<=5 (icdf), d<=2"},
    outside="larger B/d; rounding, overflow, signed zeros (exact extended reals)",
    assumptions=["exact extended-real arithmetic (no rounding/overflow)",
                 "pow/log modelled by their sign/monotonicity contract only",
                 "nexttoward(1,0) in [1-2^-20, 1)"],
    jobs=[
        S("h_vegas_pdf", dict(ob=0, B=2, d=1), ICDF_EXPECT),
        S("h_vegas_pdf", dict(ob=0, B=3, d=2, closed=1), ICDF_EXPECT),
        S("h_vegas_pdf", dict(ob=0, B=4, d=1, closed=1), ICDF_EXPECT),
        S("h_vegas_pdf", dict(ob=0, B=5, d=2, closed=1), ICDF_EXPECT, tiers=T),
        S("h_vegas_pdf", dict(ob=1, B=2, d=1), REFINE_EXPECT),
        S("h_vegas_pdf", dict(ob=1, B=3, d=1), REFINE_EXPECT),
        S("h_vegas_pdf", dict(ob=1, B=2, d=2), REFINE_EXPECT),
        S("h_vegas_pdf", dict(ob=1, B=3, d=1, zero=1), ["refine.zero_data_leaves_grid_unchanged"]),
        S("h_vegas_pdf", dict(ob=1, B=2, d=2, zero=1), ["refine.zero_data_leaves_grid_unchanged"]),
        S("h_vegas_pdf", dict(ob=1, B=4, d=1), REFINE_EXPECT, tiers=T),
        S("h_vegas_pdf", dict(ob=1, B=3, d=2), REFINE_EXPECT, tiers=T),
    ],
)
