// stubs.hpp - environment stubs for iteration/driver level harnesses: integrand and channel map whose
// results are symbolic (sym mode) or replayed inputs (concrete mode), with a call log.
#ifndef VERIF_STUBS_HPP
#define VERIF_STUBS_HPP

#include "harness.hpp"

#include "hep/mc/mc_point.hpp"
#include "hep/mc/multi_channel_map.hpp"
#include "hep/mc/multi_channel_point.hpp"
#include "hep/mc/projector.hpp"
#include "hep/mc/vegas_point.hpp"

#include <cstring>

namespace sym
{

using key_t = std::vector<std::uint64_t>;

inline void key_add(key_t& k, real const& x)
{
    k.push_back(static_cast<std::uint64_t>(x.k));
    k.push_back(x.k == FIN ? x.e.id() : 0);
}
template <typename F, if_arith<F> = 0>
inline void key_add(key_t& k, F x)
{
    long double const y = x;
    std::uint64_t b[2] = {0, 0};
    std::memcpy(b, &y, 10);
    k.push_back(b[0]);
    k.push_back(b[1]);
}
template <typename T>
inline key_t key_of(std::vector<T> const& v, std::uint64_t salt = 0)
{
    key_t k;
    k.push_back(salt);
    for (auto const& x : v) key_add(k, x);
    return k;
}

// kinds of a stub value
enum vkind { V_ZERO = 0, V_FINITE = 1, V_NAN = 2, V_PINF = 3, V_NINF = 4 };

template <typename T>
T make_value(H<T>& h, std::string const& name, int nkinds, bool positive, int* kind_out = nullptr)
{
    // nkinds: 1 -> finite only, 2 -> {finite, zero}, 5 -> {finite, zero, NaN, +inf, -inf}
    int c = (nkinds <= 1) ? 0 : h.choose(name + "_kind", nkinds);
    int kind = V_FINITE;
    if (c == 1) kind = V_ZERO; else if (c == 2) kind = V_NAN; else if (c == 3) kind = V_PINF; else if (c == 4) kind = V_NINF;
    if (kind_out) *kind_out = kind;
    switch (kind)
    {
    case V_ZERO: return T(0.0);
    case V_NAN: return h.special(NANK);
    case V_PINF: return h.special(PINF);
    case V_NINF: return h.special(NINF);
    default: break;
    }
    // magnitudes whose squares and cubes stay finite in the numeric flavour (overflow of finite data is outside the premises)
    double const big = (SYM_DIGITS == 24) ? 1e9 : 1e30;
    T v = positive ? h.input(name, 0.0, big, true, false) : h.input(name, -big, big);
    if (!positive && nkinds >= 2) h.assume(!h.eq(v, T(0.0)));
    return v;
}

template <typename T>
struct call_record
{
    std::vector<T> coords;              // what the integrand saw in point.point()
    std::vector<std::size_t> bins;      // VEGAS
    std::size_t channel = 0;            // multi-channel
    T f;                                // integrand value
    int f_kind = V_FINITE;
    bool asked_weight = false;
    T asked_weight_value;
    bool has_dist = false;
    T dist_x, dist_v;                   // value handed to projector.add(0, x, v)
    int dist_v_kind = V_FINITE;
    std::uint64_t engine_pos_hint = 0;
};

template <typename T>
struct run_log
{
    std::vector<call_record<T>> calls;
    std::vector<std::string> events;     // protocol events in order
    void ev(std::string const& s) { events.push_back(s); }
};

// value tables shared between runs on the same path (same point => same value)
template <typename T>
struct stub_tables
{
    struct fentry { T f; int kind; bool ask; T dx, dv; int dvk; bool use_proj; };
    std::map<key_t, fentry> f;
    struct dentry { std::vector<T> p; T jac; int jk; };
    std::map<key_t, dentry> d;
    // a sampled point is identified by the stream positions of the canonical numbers it was made from (the same in the
    // serial run, a resumed run and on every MPI rank), not by its coordinates: concrete replays often give several
    // symbolic points the same coordinate values
    std::size_t cursor = 0;       // index into canon_table<T>::draws() where the current call's draws begin
    key_t last_key;
    std::uint64_t epoch = 0;      // a harness switches to "another integrand" by changing the epoch: all values become new ones
    key_t call_key(std::uint64_t salt)
    {
        salt += epoch * 1000000ull;
        auto const& draws = canon_table<T>::draws();
        if (cursor > draws.size()) cursor = 0;     // the table was cleared (new path)
        key_t k;
        k.push_back(salt);
        for (std::size_t i = cursor; i < draws.size(); ++i) k.push_back(draws[i]);
        cursor = draws.size();
        last_key = k;
        return k;
    }
};

// integrand stub
template <typename T>
struct stub_integrand
{
    H<T>* h = nullptr;
    run_log<T>* log = nullptr;
    stub_tables<T>* tab = nullptr;
    int f_kinds = 2;          // 1 finite, 2 +zero, 5 +non-finite
    bool may_ask_weight = false;
    int dist_kinds = 0;       // 0: no projector use; 1 finite value; 5 with non-finite values
    bool dist_x_symbolic = true;
    bool projector_optional = false;  // fork: the integrand may skip projector.add at a point
    bool key_by_coords = false;       // real engines (concrete, distinct coordinates): a point is identified by its coordinates
    std::size_t concrete_first = 0;   // the first so many distinct points get the fixed values 1, 3, 2, 5, ... (keeps later solver queries tractable)
    mutable bool sanitize = false;    // return zero wherever the stored value is not finite ("the same points returned zero")

    T evaluate(hep::mc_point<T> const& p, hep::projector<T>* proj) const
    {
        call_record<T> r;
        r.coords = p.point();
        if (auto vp = dynamic_cast<hep::vegas_point<T> const*>(&p)) r.bins = vp->bin();
        std::uint64_t salt = 1;
        if (auto mp = dynamic_cast<hep::multi_channel_point<T> const*>(&p))
        {
            r.channel = mp->channel();
            salt = 100 + r.channel;
        }
        key_t key = key_by_coords ? key_of(r.coords, salt + tab->epoch * 1000000ull) : tab->call_key(salt);
        if (key_by_coords) tab->last_key = key;
        auto it = tab->f.find(key);
        if (it == tab->f.end())
        {
            typename stub_tables<T>::fentry e;
            if (tab->f.size() < concrete_first)
            {
                static double const fixed[] = {1.0, 3.0, 2.0, 5.0, 4.0, 7.0};
                e.f = T(fixed[tab->f.size() % 6]);
                e.kind = V_FINITE;
            }
            else
            e.f = make_value<T>(*h, "f", f_kinds, false, &e.kind);
            e.ask = may_ask_weight ? (h->choose("integrand_asks_weight", 2) == 1) : false;
            e.dvk = V_FINITE;
            e.use_proj = false;
            if (dist_kinds > 0)
            {
                // an integrand with distributions need not fill them at every point
                e.use_proj = projector_optional ? (h->choose("integrand_uses_projector", 2) == 0) : true;
                e.dx = dist_x_symbolic ? h->input("dist_x", -1.0, 2.0) : T(0.25);
                e.dv = make_value<T>(*h, "dist_v", dist_kinds == 1 ? 1 : 5, false, &e.dvk);
            }
            it = tab->f.emplace(key, e).first;
        }
        auto e = it->second;
        if (sanitize)
        {
            if (e.kind == V_NAN || e.kind == V_PINF || e.kind == V_NINF) { e.f = T(0.0); e.kind = V_ZERO; }
            if (e.dvk == V_NAN || e.dvk == V_PINF || e.dvk == V_NINF) { e.dv = T(0.0); e.dvk = V_ZERO; }
        }
        r.f = e.f;
        r.f_kind = e.kind;
        log->ev("integrand");
        if (e.ask)
        {
            r.asked_weight = true;
            r.asked_weight_value = p.weight();
            log->ev("integrand_got_weight");
        }
        if (proj != nullptr && dist_kinds > 0 && e.use_proj)
        {
            r.has_dist = true;
            r.dist_x = e.dx;
            r.dist_v = e.dv;
            r.dist_v_kind = e.dvk;
            proj->add(0, e.dx, e.dv);
        }
        log->calls.push_back(r);
        return e.f;
    }

    T operator()(hep::mc_point<T> const& p) const { return evaluate(p, nullptr); }
    T operator()(hep::mc_point<T> const& p, hep::projector<T>& proj) const { return evaluate(p, &proj); }
};

// channel map stub: coordinates = random numbers; densities and jacobian symbolic
template <typename T>
struct map_record
{
    std::size_t channel;
    std::vector<T> rn;
    std::vector<std::size_t> enabled;
    void const* a_rn; void const* a_coords; void const* a_dens; void const* a_enabled;
    std::vector<T> coords_after;
    std::vector<T> dens_seen;   // content of the density buffer: after the coordinate call / on entry of the density call
    std::vector<T> p;   // densities written (size channels)
    T jac;
    int jk;
};

template <typename T>
struct stub_channel_map
{
    H<T>* h = nullptr;
    run_log<T>* log = nullptr;
    stub_tables<T>* tab = nullptr;
    std::vector<map_record<T>>* coord_calls = nullptr;
    std::vector<map_record<T>>* dens_calls = nullptr;
    int jac_kinds = 1;        // 1 finite positive; 5 adds zero/NaN/inf
    bool density_may_vanish = false;
    bool coordinate_return_forks = false;   // the value returned by the coordinate call is documented to be ignored: return 1, 0 or NaN

    T operator()(std::size_t channel, std::vector<T> const& random_numbers, std::vector<T>& coordinates,
        std::vector<std::size_t> const& enabled_channels, std::vector<T>& densities,
        hep::multi_channel_map action) const
    {
        map_record<T> r;
        r.channel = channel;
        if (action == hep::multi_channel_map::calculate_densities) r.dens_seen = densities;
        r.rn = random_numbers;
        r.enabled = enabled_channels;
        r.a_rn = &random_numbers; r.a_coords = &coordinates; r.a_dens = &densities; r.a_enabled = &enabled_channels;
        if (action == hep::multi_channel_map::calculate_coordinates)
        {
            for (std::size_t j = 0; j != coordinates.size(); ++j)
                coordinates[j] = random_numbers.at(j % random_numbers.size());
            r.coords_after = coordinates;
            // a map may already compute the densities while it generates the point (and only return the jacobian later):
            // leave recognisable values in the buffer
            for (auto const i : enabled_channels) densities.at(i) = T(static_cast<double>(7 + 3 * i));
            r.dens_seen = densities;
            log->ev("map_coordinates");
            coord_calls->push_back(r);
            if (coordinate_return_forks)
            {
                int const c = h->choose("coordinate_call_returns", 3);
                if (c == 1) return T(0.0);
                if (c == 2) return h->special(NANK);
            }
            return T(1.0);
        }
        key_t key = tab->last_key;
        key.push_back(1000 + channel);
        auto it = tab->d.find(key);
        if (it == tab->d.end())
        {
            typename stub_tables<T>::dentry e;
            e.p.assign(densities.size(), T(0.0));
            for (auto const i : enabled_channels)
            {
                bool const strict = (i == channel) && !density_may_vanish;
                e.p.at(i) = h->input("p", 0.0, 1e6, strict, false);
            }
            e.jac = make_value<T>(*h, "J", jac_kinds, true, &e.jk);
            it = tab->d.emplace(key, e).first;
        }
        auto const& e = it->second;
        for (auto const i : enabled_channels) densities.at(i) = e.p.at(i);
        r.coords_after = coordinates;
        r.p = e.p;
        r.jac = e.jac;
        r.jk = e.jk;
        log->ev("map_densities");
        dens_calls->push_back(r);
        return e.jac;
    }
};

}

#endif
