// driver_common.hpp - shared by the driver level harnesses: stub world, per-algorithm glue to the real
// drivers and checkpoint classes, text utilities, field-by-field comparison, state-threading checks
#ifndef VERIF_DRIVER_COMMON_HPP
#define VERIF_DRIVER_COMMON_HPP

#include "stubs.hpp"

#include "hep/mc/callback.hpp"
#include "hep/mc/multi_channel.hpp"
#include "hep/mc/multi_channel_integrand.hpp"
#include "hep/mc/plain.hpp"
#include "hep/mc/vegas.hpp"

#include <cstdio>
#include <fstream>
#include <sstream>
#include <unistd.h>

using sym::H;

static std::string const LONG_NAME(20000, 'n');   // longer than the stream buffer: the text is written in several pieces
static char const* const NAMES[] = {"x", "a b", "", " lead", "trail ", "0 1", LONG_NAME.c_str()};

template <typename T>
struct world
{
    H<T>& h;
    std::size_t d, B, C;
    int dist, name_idx, user;
    sym::run_log<T> log;
    sym::stub_tables<T> tab;
    std::vector<sym::map_record<T>> cc, dc;
    sym::stub_integrand<T> f;
    sym::stub_channel_map<T> m;
    // symbolic parameters (created once per path)
    T alpha = T(0.5), beta = T(0.5), minw = T(0.5);   // overwritten by params() of the integrator that has them
    std::vector<T> grid;        // user grid interior boundaries
    std::vector<T> weights;     // user weights
    std::vector<bool> wz;

    explicit world(H<T>& hh) : h(hh)
    {
        d = h.get("d", 1); B = h.get("B", 2); C = h.get("C", 2);
        dist = h.get("dist", 0); name_idx = h.get("name", 0); user = h.get("user", 0);
        f.h = &h; f.log = &log; f.tab = &tab; f.f_kinds = h.get("fk", 2);
        f.dist_kinds = dist; f.dist_x_symbolic = h.get("dx", 0) != 0;
        f.concrete_first = static_cast<std::size_t>(h.get("fc", 0));
        m.h = &h; m.log = &log; m.tab = &tab; m.coord_calls = &cc; m.dens_calls = &dc;
        m.jac_kinds = h.get("jk", 1);
        m.density_may_vanish = h.get("pz", 0) != 0;
        sym::E().conv_cap = static_cast<std::size_t>(h.get("cap", 4));
    }
    std::string name() const { return NAMES[name_idx]; }
};

template <typename Chk>
struct always_true
{
    bool operator()(Chk const&) const { return true; }
};

// ---- per algorithm glue ------------------------------------------------------------------------
template <typename T, typename E = sym::stub_engine>
struct plain_alg
{
    using chk = hep::plain_chkpt_with_rng<E, T>;
    static void params(world<T>&) {}
    static chk fresh(world<T>&) { return hep::make_plain_chkpt<T>(E()); }
    template <typename CB>
    static chk run(world<T>& w, std::vector<std::size_t> const& calls, chk const& c, CB cb)
    {
        if (w.h.get("dist2", 0) != 0)
            return hep::plain(hep::make_integrand<T>(w.f, w.d, hep::make_dist_params<T>(2, T(0.0), T(1.0), "first"),
                hep::make_dist_params<T>(2, T(0.0), T(1.0), w.name())), calls, c, cb);
        if (w.dist)
            return hep::plain(hep::make_integrand<T>(w.f, w.d, hep::make_dist_params<T>(2, T(0.0), T(1.0), w.name())), calls, c, cb);
        return hep::plain(hep::make_integrand<T>(w.f, w.d), calls, c, cb);
    }
    static chk load(std::istream& in) { return hep::make_plain_chkpt<T, E>(in); }
    static std::size_t numbers_per_call(world<T>& w) { return w.d; }
};

template <typename T, typename E = sym::stub_engine>
struct vegas_alg
{
    using chk = hep::vegas_chkpt_with_rng<E, T>;
    static void params(world<T>& w)
    {
        w.alpha = w.h.input("alpha", 0.0, 3.0);
        if (w.user)
        {
            for (std::size_t i = 0; i != w.d; ++i)
            {
                T prev = T(0.0);
                for (std::size_t b = 1; b != w.B; ++b)
                {
                    T g = w.h.input("g", 0.0, 1.0);
                    w.h.assume(w.h.lt(prev, g));
                    w.grid.push_back(g);
                    prev = g;
                }
                w.h.assume(w.h.lt(prev, T(1.0)));
            }
        }
    }
    static hep::vegas_pdf<T> user_pdf(world<T>& w)
    {
        hep::vegas_pdf<T> pdf(w.d, w.B);
        std::size_t k = 0;
        for (std::size_t i = 0; i != w.d; ++i)
            for (std::size_t b = 1; b != w.B; ++b) pdf.set_bin_left(i, b, w.grid[k++]);
        return pdf;
    }
    static chk fresh(world<T>& w)
    {
        if (w.user) return hep::make_vegas_chkpt<T>(user_pdf(w), w.alpha, E());
        // a default checkpoint learns its dimension when the driver starts (chkpt.dimensions(d)); before
        // that it has no grid and cannot be written
        chk c = hep::make_vegas_chkpt<T>(w.B, w.alpha, E());
        c.dimensions(w.d);
        return c;
    }
    template <typename CB>
    static chk run(world<T>& w, std::vector<std::size_t> const& calls, chk const& c, CB cb)
    {
        if (w.h.get("dist2", 0) != 0)
            return hep::vegas(hep::make_integrand<T>(w.f, w.d, hep::make_dist_params<T>(2, T(0.0), T(1.0), "first"),
                hep::make_dist_params<T>(2, T(0.0), T(1.0), w.name())), calls, c, cb);
        if (w.dist)
            return hep::vegas(hep::make_integrand<T>(w.f, w.d, hep::make_dist_params<T>(2, T(0.0), T(1.0), w.name())), calls, c, cb);
        return hep::vegas(hep::make_integrand<T>(w.f, w.d), calls, c, cb);
    }
    static chk load(std::istream& in) { return hep::make_vegas_chkpt<T, E>(in); }
    static std::size_t numbers_per_call(world<T>& w) { return w.d; }
};

template <typename T, typename E = sym::stub_engine>
struct multi_alg
{
    using chk = hep::multi_channel_chkpt_with_rng<E, T>;
    static void params(world<T>& w)
    {
        w.beta = w.h.input("beta", 0.0, 1.0);   // beta = 0 (no adaptation) included
        w.minw = w.h.input("min", 0.0, 1.0);
        w.h.assume(w.h.lt(w.minw * T(w.C), T(1.0)));
        if (w.user)
        {
            bool any = false;
            w.wz.assign(w.C, false);
            for (std::size_t i = 0; i != w.C; ++i)
            {
                bool z = w.h.choose("weight_is_zero", 2) == 1;
                if (i + 1 == w.C && !any) z = false;
                w.wz[i] = z;
                if (z) w.weights.push_back(T(0.0));
                else { w.weights.push_back(w.h.input("alpha", 0.0, 10.0, true, false)); any = true; }
            }
        }
    }
    static chk fresh(world<T>& w)
    {
        if (w.user) return hep::make_multi_channel_chkpt<T>(w.weights, w.minw, w.beta, E());
        return hep::make_multi_channel_chkpt<T>(w.minw, w.beta, E());
    }
    template <typename CB>
    static chk run(world<T>& w, std::vector<std::size_t> const& calls, chk const& c, CB cb)
    {
        if (w.dist)
            return hep::multi_channel(hep::make_multi_channel_integrand<T>(w.f, w.d, w.m, static_cast<std::size_t>(w.h.get("md", static_cast<long>(w.d))), w.C,
                hep::make_dist_params<T>(2, T(0.0), T(1.0), w.name())), calls, c, cb);
        return hep::multi_channel(hep::make_multi_channel_integrand<T>(w.f, w.d, w.m, static_cast<std::size_t>(w.h.get("md", static_cast<long>(w.d))), w.C), calls, c, cb);
    }
    static chk load(std::istream& in) { return hep::make_multi_channel_chkpt<T, E>(in); }
    static std::size_t numbers_per_call(world<T>& w) { return w.d + 1; }
};

// ---- text utilities ----------------------------------------------------------------------------
template <typename Chk>
static std::string ser(Chk const& c)
{
    std::ostringstream o;
    c.serialize(o);
    return o.str();
}

// value behind a real-number token of a serialised text
template <typename F> struct tokval;
template <> struct tokval<sym::real>
{
    static bool is_token(std::string const& w) { return !w.empty() && w[0] == '@'; }
    static sym::real get(std::string const& w)
    {
        auto const& t = sym::E().tokens.at(std::stoul(w.substr(1)));
        return t.kind == sym::FIN ? sym::real(sym::E().token_exprs.at(t.ast_index)) : sym::real::special(t.kind);
    }
    static bool well_formatted(std::string const& w)
    {
        auto const& t = sym::E().tokens.at(std::stoul(w.substr(1)));
        return t.lossless;
    }
};
template <typename F> struct tokval
{
    static bool is_token(std::string const& w)
    {
        return w.find_first_of(".e") != std::string::npos && (std::isdigit(static_cast<unsigned char>(w[0])) || w[0] == '-' || w[0] == '+'
            || w[0] == 'n' || w[0] == 'i');
    }
    static F get(std::string const& w) { try { return static_cast<F>(std::stold(w)); } catch (...) { return std::numeric_limits<F>::quiet_NaN(); } }
    static bool well_formatted(std::string const& w)
    {
        // d.ddddde+XX : max_digits10-1 fractional digits
        std::size_t p = w.find('.'), e = w.find('e');
        if (w == "nan" || w == "-nan" || w == "inf" || w == "-inf") return true;
        return p != std::string::npos && e != std::string::npos &&
            (e - p - 1) >= static_cast<std::size_t>(std::numeric_limits<F>::max_digits10 - 1);
    }
};

// splits a text into lines of words, keeping the line structure (names may contain blanks)
static std::vector<std::string> words_of(std::string const& text)
{
    std::vector<std::string> out;
    std::string cur;
    for (char c : text)
    {
        if (c == ' ' || c == '\n')
        {
            if (!cur.empty()) out.push_back(cur);
            cur.clear();
            out.push_back(std::string(1, c));   // separators are part of the comparison
        }
        else cur.push_back(c);
    }
    if (!cur.empty()) out.push_back(cur);
    return out;
}

template <typename T>
static sym::cond<T> texts_identical(H<T>& h, std::string const& a, std::string const& b)
{
    auto wa = words_of(a), wb = words_of(b);
    if (wa.size() != wb.size())
    {
        h.event("texts differ in structure: " + std::to_string(wa.size()) + " vs " + std::to_string(wb.size()));
        return h.truth(false);
    }
    auto c = h.truth(true);
    for (std::size_t i = 0; i != wa.size(); ++i)
    {
        bool ta = tokval<T>::is_token(wa[i]), tb = tokval<T>::is_token(wb[i]);
        if (ta && tb) c = c && h.same(tokval<T>::get(wa[i]), tokval<T>::get(wb[i]));
        else if (wa[i] != wb[i])
        {
            h.event("texts differ at word " + std::to_string(i) + ": '" + wa[i] + "' vs '" + wb[i] + "'");
            return h.truth(false);
        }
    }
    return c;
}

template <typename T>
static bool all_numbers_well_formatted(std::string const& text)
{
    for (auto const& w : words_of(text))
        if (tokval<T>::is_token(w) && !tokval<T>::well_formatted(w)) return false;
    return true;
}

// text -> object; reports stream problems
template <typename T, typename A>
static typename A::chk reload(H<T>& h, std::string const& text, std::string const& tag, bool& ok)
{
    std::istringstream in(text);
    typename A::chk c = A::load(in);
    bool const failed = in.fail();
    std::string rest;
    bool leftover = false;
    if (!failed)
    {
        in >> std::ws;
        leftover = in.peek() != std::istream::traits_type::eof();
    }
    ok = !failed && !leftover;
    if (!ok) h.event(tag + ": reading back " + (failed ? "failed" : "left text unread"));
    return c;
}

static std::vector<std::size_t> calls_pattern(long cp, std::size_t n)
{
    // cp: 0 -> all 1; 1 -> 1,2,1,2..; 2 -> 2,1,2,1...; 3 -> all 2; 4 -> 1,0,1,0.. ; 5 -> 0,2,0,2.. (iterations without calls)
    std::vector<std::size_t> c;
    for (std::size_t i = 0; i != n; ++i)
    {
        std::size_t v = 1;
        if (cp == 1) v = (i % 2) ? 2 : 1;
        if (cp == 2) v = (i % 2) ? 1 : 2;
        if (cp == 3) v = 2;
        if (cp == 4) v = (i % 2) ? 0 : 1;
        if (cp == 5) v = (i % 2) ? 2 : 0;
        c.push_back(v);
    }
    return c;
}

// ---- field by field comparison (C05) -------------------------------------------------------------
template <typename T>
static sym::cond<T> same_mc(H<T>& h, hep::mc_result<T> const& a, hep::mc_result<T> const& b)
{
    return h.truth(a.calls() == b.calls() && a.non_zero_calls() == b.non_zero_calls() && a.finite_calls() == b.finite_calls())
        && h.same(a.sum(), b.sum()) && h.same(a.sum_of_squares(), b.sum_of_squares());
}

template <typename T>
static sym::cond<T> same_plain(H<T>& h, hep::plain_result<T> const& a, hep::plain_result<T> const& b)
{
    auto c = same_mc<T>(h, a, b) && h.truth(a.distributions().size() == b.distributions().size());
    for (std::size_t i = 0; i != a.distributions().size() && i != b.distributions().size(); ++i)
    {
        auto const& pa = a.distributions()[i].parameters();
        auto const& pb = b.distributions()[i].parameters();
        if (pa.name() != pb.name())
            h.event("distribution name '" + pa.name() + "' read back as '" + pb.name() + "'");
        c = c && h.truth(pa.bins_x() == pb.bins_x() && pa.bins_y() == pb.bins_y() && pa.name() == pb.name())
            && h.same(pa.x_min(), pb.x_min()) && h.same(pa.y_min(), pb.y_min())
            && h.same(pa.bin_size_x(), pb.bin_size_x()) && h.same(pa.bin_size_y(), pb.bin_size_y());
        auto const& ra = a.distributions()[i].results();
        auto const& rb = b.distributions()[i].results();
        c = c && h.truth(ra.size() == rb.size());
        for (std::size_t k = 0; k != ra.size() && k != rb.size(); ++k) c = c && same_mc<T>(h, ra[k], rb[k]);
    }
    return c;
}

template <typename T>
static sym::cond<T> same_pdf(H<T>& h, hep::vegas_pdf<T> const& a, hep::vegas_pdf<T> const& b)
{
    auto c = h.truth(a.bins() == b.bins() && a.dimensions() == b.dimensions());
    if (a.bins() != b.bins() || a.dimensions() != b.dimensions()) return c;
    for (std::size_t i = 0; i != a.dimensions(); ++i)
        for (std::size_t k = 0; k <= a.bins(); ++k) c = c && h.same(a.bin_left(i, k), b.bin_left(i, k));
    return c;
}

template <typename T>
static sym::cond<T> same_vec(H<T>& h, std::vector<T> const& a, std::vector<T> const& b)
{
    auto c = h.truth(a.size() == b.size());
    for (std::size_t i = 0; i != a.size() && i != b.size(); ++i) c = c && h.same(a[i], b[i]);
    return c;
}

template <typename T, typename E>
static sym::cond<T> same_chk(H<T>& h, hep::chkpt_with_rng<E, hep::plain_chkpt<T>> const& a, hep::chkpt_with_rng<E, hep::plain_chkpt<T>> const& b)
{
    auto c = h.truth(a.results().size() == b.results().size() && a.generator() == b.generator());
    for (std::size_t i = 0; i != a.results().size() && i != b.results().size(); ++i)
        c = c && same_plain<T>(h, a.results()[i], b.results()[i]);
    return c;
}
template <typename T, typename E>
static sym::cond<T> same_chk(H<T>& h, hep::chkpt_with_rng<E, hep::vegas_chkpt<T>> const& a, hep::chkpt_with_rng<E, hep::vegas_chkpt<T>> const& b)
{
    auto c = h.truth(a.results().size() == b.results().size() && a.generator() == b.generator()) && h.same(a.alpha(), b.alpha());
    for (std::size_t i = 0; i != a.results().size() && i != b.results().size(); ++i)
        c = c && same_plain<T>(h, a.results()[i], b.results()[i]) && same_pdf<T>(h, a.results()[i].pdf(), b.results()[i].pdf())
            && same_vec<T>(h, a.results()[i].adjustment_data(), b.results()[i].adjustment_data());
    if (a.results().size() == b.results().size()) c = c && same_pdf<T>(h, a.pdf(), b.pdf());
    return c;
}
template <typename T, typename E>
static sym::cond<T> same_chk(H<T>& h, hep::chkpt_with_rng<E, hep::multi_channel_chkpt<T>> const& a, hep::chkpt_with_rng<E, hep::multi_channel_chkpt<T>> const& b)
{
    auto c = h.truth(a.results().size() == b.results().size() && a.generator() == b.generator())
        && h.same(a.beta(), b.beta()) && h.same(a.min_weight(), b.min_weight());
    for (std::size_t i = 0; i != a.results().size() && i != b.results().size(); ++i)
        c = c && same_plain<T>(h, a.results()[i], b.results()[i])
            && same_vec<T>(h, a.results()[i].adjustment_data(), b.results()[i].adjustment_data())
            && same_vec<T>(h, a.results()[i].channel_weights(), b.results()[i].channel_weights());
    if (a.results().size() == b.results().size()) c = c && same_vec<T>(h, a.channel_weights(), b.channel_weights());
    return c;
}


// ---- ob 7: state threading (C19) --------------------------------------------------------------------
template <typename T>
static void state_checks_impl(H<T>& h, world<T>& w, hep::plain_chkpt<T> const&, std::string const&) { (void) h; (void) w; }

template <typename T>
static void state_checks_impl(H<T>& h, world<T>& w, hep::vegas_chkpt<T> const& c, std::string const& tag)
{
    for (std::size_t k = 0; k != c.results().size(); ++k)
    {
        hep::vegas_pdf<T> expected = (k == 0)
            ? (w.user ? vegas_alg<T>::user_pdf(w) : hep::vegas_pdf<T>(w.d, w.B))
            : hep::vegas_refine_pdf(c.results()[k - 1].pdf(), w.alpha, c.results()[k - 1].adjustment_data());
        h.check(k == 0 ? "C19|state.first_iteration_uses_user_or_uniform_grid" + tag
                       : "C19,C07|state.iteration_uses_refinement_of_previous_result" + tag,
            same_pdf<T>(h, c.results()[k].pdf(), expected));
    }
    h.check("C19|state.alpha_kept" + tag, h.same(c.alpha(), w.alpha));
}

template <typename T>
static void state_checks_impl(H<T>& h, world<T>& w, hep::multi_channel_chkpt<T> const& c, std::string const& tag)
{
    for (std::size_t k = 0; k != c.results().size(); ++k)
    {
        std::vector<T> expected;
        if (k == 0)
        {
            if (w.user)
                expected = hep::multi_channel_refine_weights(w.weights, std::vector<T>(w.C, T(1.0)), w.minw, w.beta);
            else
                expected.assign(w.C, T(1.0) / T(w.C));
        }
        else
            expected = hep::multi_channel_refine_weights(c.results()[k - 1].channel_weights(),
                c.results()[k - 1].adjustment_data(), w.minw, w.beta);
        h.check(k == 0 ? "C19|state.first_iteration_uses_normalised_user_or_uniform_weights" + tag
                       : "C19,C08|state.iteration_uses_refinement_of_previous_result" + tag,
            same_vec<T>(h, c.results()[k].channel_weights(), expected));
        // the weights any iteration is run with are a probability vector
        T s = T();
        bool fin = true;
        for (auto const& x : c.results()[k].channel_weights()) { fin = fin && sym::isfinite(x); s += x; }
        h.check("C01,C08|state.weights_of_every_iteration_are_finite_and_sum_to_one" + tag, h.truth(fin) && h.eq(s, T(1.0)));
    }
    h.check("C19|state.beta_and_minimum_weight_kept" + tag, h.same(c.beta(), w.beta) && h.same(c.min_weight(), w.minw));
}


template <typename T, typename C>
static void state_checks(H<T>& h, world<T>& w, C const& c, std::string const& tag)
{
    state_checks_impl<T>(h, w, c, tag);   // slices to the checkpoint class without the generators
}

#endif
