// harness.hpp - mode-generic harness API (symbolic exploration / concrete replay) on top of sym.hpp
#ifndef VERIF_HARNESS_HPP
#define VERIF_HARNESS_HPP

#include "sym.hpp"

#include <algorithm>
#include <cstdio>
#include <cstdlib>
#include <cstring>
#include <fstream>
#include <functional>
#include <set>
#include <csetjmp>
#include <csignal>
#include <cstring>
#include <signal.h>

namespace sym
{

inline std::string jesc(std::string const& s)
{
    std::string o;
    for (char c : s)
    {
        if (c == '"' || c == '\\') { o.push_back('\\'); o.push_back(c); }
        else if (c == '\n') o += "\\n";
        else if (c == '\t') o += "\\t";
        else if (static_cast<unsigned char>(c) < 0x20) o += "?";
        else o.push_back(c);
    }
    return o;
}

// ---- trap for libstdc++ assertion failures (-D_GLIBCXX_ASSERTIONS): out-of-range operator[] etc.
struct trap
{
    static std::jmp_buf& buf() { static std::jmp_buf b; return b; }
    static bool& armed() { static bool a = false; return a; }
    static std::string& message() { static std::string m; return m; }
    // set by the MPI shim: called instead of longjmp when the failing code runs on a coroutine stack
    static void (*&escape())() { static void (*f)() = nullptr; return f; }
    // longjmp skips the destructors that would undo a redirection of std::cout made by a harness
    static std::streambuf*& cout_buf() { static std::streambuf* b = nullptr; return b; }
    static void restore_streams() { if (cout_buf()) std::cout.rdbuf(cout_buf()); }
};

// ---- conditions --------------------------------------------------------------------------------

// primary template: concrete (replay) mode, T is the native floating point type
template <typename T> struct cond
{
    bool b;
    cond(bool x) : b(x) {}
};

template <> struct cond<real>
{
    z3::expr e;
    cond(z3::expr const& x) : e(x) {}
    cond(bool b) : e(E().ctx.bool_val(b)) {}
};

inline cond<real> operator&&(cond<real> const& a, cond<real> const& b) { return cond<real>(a.e && b.e); }
inline cond<real> operator||(cond<real> const& a, cond<real> const& b) { return cond<real>(a.e || b.e); }
inline cond<real> operator!(cond<real> const& a) { return cond<real>(!a.e); }
template <typename T> inline cond<T> operator&&(cond<T> const& a, cond<T> const& b) { return cond<T>(a.b && b.b); }
template <typename T> inline cond<T> operator||(cond<T> const& a, cond<T> const& b) { return cond<T>(a.b || b.b); }
template <typename T> inline cond<T> operator!(cond<T> const& a) { return cond<T>(!a.b); }

struct check_stat
{
    std::size_t reached = 0, discharged = 0, violated = 0, unknown = 0, confirmed = 0;
};

struct violation
{
    std::string check;
    std::vector<std::string> input_names;
    std::vector<std::string> input_values;   // decimal strings
    std::vector<int> choices;
    std::string note;
    bool replayed = false;
    bool confirmed = false;
    bool ub_class = false;   // undefined behaviour at the language level: not confirmable by a concrete run
};

struct results
{
    std::map<std::string, check_stat> checks;
    std::vector<violation> violations;
    std::size_t paths = 0, aborted_infeasible = 0, aborted_unknown = 0, aborted_cap = 0,
                aborted_ub = 0, decisions = 0;
    std::map<std::string, std::size_t> abort_reasons;
    std::vector<std::string> samples;
    std::vector<std::string> smt2_files;
    std::size_t validated_paths = 0;                   // completed symbolic paths re-run concretely (native type) with a model of the path condition
    std::vector<std::string> validation_disagreements; // checks that the symbolic run discharged but the concrete run of the same path fails
};


template <typename F> class H;

// --------------------------------------------------------------------------------------------
// symbolic mode
template <>
class H<real>
{
public:
    static constexpr bool is_sym = true;
    std::map<std::string, long> cfg;
    results* res = nullptr;
    std::string smt2_dir;
    std::size_t max_violations_per_check = 3;

    long get(std::string const& k, long dflt) const
    {
        auto it = cfg.find(k);
        return it == cfg.end() ? dflt : it->second;
    }

    real input(std::string const& name) { return real(E().input(name)); }

    real input(std::string const& name, double lo, double hi, bool lo_strict = false,
        bool hi_strict = false)
    {
        z3::expr v = E().input(name);
        z3::expr l = real(lo).e, h = real(hi).e;
        E().define(lo_strict ? v > l : v >= l);
        E().define(hi_strict ? v < h : v <= h);
        return real(v);
    }

    // special (non-finite) values for stubs
    real special(int kind) { return real::special(kind); }

    int choose(std::string const& /*what*/, int n) { return E().choose(n); }

    void assume(cond<real> const& c) { E().assume(c.e); }

    void event(std::string const& s) { E().events.push_back(s); }

    // numeric relations as conditions (no forking). Non-finite kinds are compared concretely.
    cond<real> eq(real const& a, real const& b)
    {
        if (a.k == FIN && b.k == FIN) return cond<real>(eqn(a.e, b.e));
        return cond<real>(a.k != NANK && a.k == b.k);
    }
    // identical: equal, or the same kind of non-finite value (NaN identical to NaN)
    cond<real> same(real const& a, real const& b)
    {
        if (a.k == FIN && b.k == FIN) return cond<real>(a.e == b.e);
        return cond<real>(a.k == b.k);
    }
    cond<real> le(real const& a, real const& b)
    {
        if (a.k == FIN && b.k == FIN) return cond<real>(a.e <= b.e);
        if (a.k == NANK || b.k == NANK) return cond<real>(false);
        return cond<real>(a.k == b.k || a.k == NINF || b.k == PINF);
    }
    cond<real> lt(real const& a, real const& b)
    {
        if (a.k == FIN && b.k == FIN) return cond<real>(a.e < b.e);
        if (a.k == NANK || b.k == NANK) return cond<real>(false);
        return cond<real>(a.k != b.k && (a.k == NINF || b.k == PINF));
    }
#ifdef SYM_FP
    cond<real> finite(real const& a) { return cond<real>(!special_bool(a.e)); }
#else
    cond<real> finite(real const& a) { return cond<real>(a.k == FIN); }
#endif
    cond<real> truth(bool b) { return cond<real>(b); }

    std::string show(real const& a)
    {
        if (a.k == FIN) { std::ostringstream o; o << a.e; return o.str(); }
        return a.k == NANK ? "nan" : (a.k == PINF ? "inf" : "-inf");
    }

    static std::string model_value(z3::model& m, z3::expr const& input)
    {
        z3::expr val = m.eval(input, true);
        std::string s;
#ifdef SYM_FP
        {
            z3::expr bits = val.mk_to_ieee_bv().simplify();
            std::string b = bits.is_numeral() ? bits.get_decimal_string(0) : std::string("0");
            unsigned __int128 w = 0;
            for (char ch : b) if (ch >= '0' && ch <= '9') w = w * 10 + static_cast<unsigned>(ch - '0');
            SYM_NATIVE x = 0;
            std::memcpy(&x, &w, SYM_DIGITS == 64 ? 10 : sizeof(SYM_NATIVE));
            std::ostringstream o;
            o.precision(40);
            o << x;
            s = o.str();
        }
#else
        if (val.is_numeral()) s = val.get_decimal_string(40);
        else if (val.is_algebraic()) s = val.get_decimal_string(40);
        else { std::ostringstream o; o << val; s = o.str(); }
#endif
        if (!s.empty() && s.back() == '?') s.pop_back();
        return s;
    }

    void check(std::string const& name, cond<real> const& c)
    {
        engine& g = E();
        check_stat& st = res->checks[name];
        ++st.reached;
        z3::expr neg = (!c.e).simplify();
        if (neg.is_false())
        {
            ++st.discharged;
            return;
        }
        z3::model m(g.ctx);
        z3::check_result r = g.check({neg}, &m);
        if (!smt2_dir.empty() && res->smt2_files.size() < 400)
        {
            std::string fn = smt2_dir + "/q" + std::to_string(res->smt2_files.size()) + "_" +
                (r == z3::unsat ? "unsat" : (r == z3::sat ? "sat" : "unknown")) + ".smt2";
            std::ofstream f(fn);
            f << "(set-logic ALL)\n; check " << name << "\n" << g.smt2({neg});   // to_smt2() ends with (check-sat)
            res->smt2_files.push_back(fn);
        }
        if (r == z3::unsat)
        {
            ++st.discharged;
            return;
        }
        if (r == z3::unknown)
        {
            ++st.unknown;
            return;
        }
        ++st.violated;
        if (st.violated > max_violations_per_check)
        {
            return;
        }
        violation v;
        v.check = name;
        v.choices = g.user_choices;
        for (std::size_t i = 0; i != g.inputs.size(); ++i)
        {
            std::string s = model_value(m, g.inputs[i]);
            v.input_names.push_back(g.input_names[i]);
            v.input_values.push_back(s);
        }
        std::ostringstream note;
        for (auto const& ev : g.events) note << ev << ";";
        v.note = note.str();
        res->violations.push_back(v);
    }
};

// --------------------------------------------------------------------------------------------
// concrete (replay) mode
template <typename F>
class H
{
public:
    static constexpr bool is_sym = false;
    std::map<std::string, long> cfg;
    std::vector<F> inputs;        // by creation order
    std::vector<int> choices;
    std::size_t ipos = 0, cpos = 0;
    std::set<std::string> failed;      // names of checks that failed concretely
    std::vector<std::string> log;
    F tol = F(1e-9) > 64 * std::numeric_limits<F>::epsilon() ? F(1e-9) : 64 * std::numeric_limits<F>::epsilon();
    bool input_underflow = false;

    long get(std::string const& k, long dflt) const
    {
        auto it = cfg.find(k);
        return it == cfg.end() ? dflt : it->second;
    }

    F input(std::string const&)
    {
        if (ipos < inputs.size()) return inputs[ipos++];
        input_underflow = true;
        return F(0.5);
    }
    F input(std::string const& n, double, double, bool = false, bool = false) { return input(n); }
    F special(int kind)
    {
        if (kind == PINF) return std::numeric_limits<F>::infinity();
        if (kind == NINF) return -std::numeric_limits<F>::infinity();
        if (kind == NANK) return std::numeric_limits<F>::quiet_NaN();
        return F(0.0);
    }
    int choose(std::string const&, int n)
    {
        if (n <= 1) return 0;
        if (cpos < choices.size()) return choices[cpos++];
        return 0;
    }
    void assume(cond<F> const&) {}
    void event(std::string const& s) { log.push_back(s); }

    // algebraic identity: compared with a tolerance (the concrete run rounds)
    cond<F> eq(F a, F b)
    {
        if (std::isnan(a) || std::isnan(b)) return false;
        if (std::isinf(a) || std::isinf(b)) return a == b;
        return std::fabs(a - b) <= tol * std::max(F(1.0), std::max(std::fabs(a), std::fabs(b)));
    }
    // identity of two values that the real code must produce identically: exact
    cond<F> same(F a, F b)
    {
        if (std::isnan(a) && std::isnan(b)) return true;
        return a == b;
    }
    cond<F> le(F a, F b)
    {
        if (std::isnan(a) || std::isnan(b)) return false;
        if (std::isinf(a) || std::isinf(b)) return a <= b;
        return a <= b + tol * std::max(F(1.0), std::max(std::fabs(a), std::fabs(b)));
    }
    cond<F> lt(F a, F b)
    {
        if (std::isnan(a) || std::isnan(b)) return false;
        return a < b;
    }
    cond<F> finite(F a) { return std::isfinite(a); }
    cond<F> truth(bool b) { return b; }
    std::string show(F a) { std::ostringstream o; o.precision(21); o << a; return o.str(); }

    void check(std::string const& name, cond<F> const& c)
    {
        if (!c.b) failed.insert(name);
    }
};

}

namespace sym
{
struct concrete_hook
{
    static H<SYM_NATIVE>*& h() { static H<SYM_NATIVE>* p = nullptr; return p; }
};

// fills the concrete canonical table on demand: called by harnesses before each draw is not
// possible (draws happen inside library code), so instead the concrete generate_canonical above
// consults this function pointer when the table has no entry.
inline SYM_NATIVE concrete_next_u(std::uint64_t p)
{
    H<SYM_NATIVE>* h = concrete_hook::h();
    SYM_NATIVE v = h ? h->input("u") : static_cast<SYM_NATIVE>(0.5);
    canon_table<SYM_NATIVE>::table().emplace(p, v);
    return v;
}

}

namespace std
{
// concrete mode: canonical numbers are inputs (in creation order), keyed by stream position so that
// two runs over the same stream see the same numbers
template <>
inline SYM_NATIVE generate_canonical<SYM_NATIVE, SYM_DIGITS, sym::stub_engine>(sym::stub_engine& g)
{
    std::uint64_t const p = g.position;
    g.position += SYM_RAW_PER_CANONICAL;
    sym::canon_table<SYM_NATIVE>::draws().push_back(p);
    auto& tab = sym::canon_table<SYM_NATIVE>::table();
    auto it = tab.find(p);
    if (it != tab.end()) return it->second;
    return sym::concrete_next_u(p);
}
}

namespace sym
{

// ---- driver --------------------------------------------------------------------------------

struct options
{
    std::string mode = "sym";        // sym | replay
    std::map<std::string, long> cfg;
    std::string out;                 // json output
    std::string replay_file;         // json with inputs/choices
    std::string smt2_dir;
    unsigned timeout_ms = 60000;
    std::size_t max_paths = 200000;
    unsigned split_parts = 1, split_part = 0, split_depth = 10;
    unsigned long seed = 0;          // selects which completed paths are re-run concretely (translator validation)
    double budget_s = 1e9;
};

inline options parse_args(int argc, char** argv)
{
    options o;
    for (int i = 1; i < argc; ++i)
    {
        std::string a = argv[i];
        auto next = [&]() -> std::string { return (i + 1 < argc) ? std::string(argv[++i]) : std::string(); };
        if (a == "--mode") o.mode = next();
        else if (a == "--out") o.out = next();
        else if (a == "--replay") { o.mode = "replay"; o.replay_file = next(); }
        else if (a == "--smt2") o.smt2_dir = next();
        else if (a == "--timeout-ms") o.timeout_ms = static_cast<unsigned>(std::stoul(next()));
        else if (a == "--max-paths") o.max_paths = std::stoul(next());
        else if (a == "--budget-s") o.budget_s = std::stod(next());
        else if (a == "--split") o.split_parts = static_cast<unsigned>(std::stoul(next()));
        else if (a == "--part") o.split_part = static_cast<unsigned>(std::stoul(next()));
        else if (a == "--split-depth") o.split_depth = static_cast<unsigned>(std::stoul(next()));
        else if (a == "--seed") o.seed = std::stoul(next());
        else if (a == "--cfg")
        {
            std::string s = next();
            std::size_t p = 0;
            while (p < s.size())
            {
                std::size_t q = s.find(',', p);
                if (q == std::string::npos) q = s.size();
                std::string kv = s.substr(p, q - p);
                std::size_t eqp = kv.find('=');
                if (eqp != std::string::npos) o.cfg[kv.substr(0, eqp)] = std::stol(kv.substr(eqp + 1));
                p = q + 1;
            }
        }
    }
    return o;
}

inline SYM_NATIVE parse_decimal(std::string s)
{
    // "123.456", "-1/3" or plain integers
    std::size_t sl = s.find('/');
    if (sl != std::string::npos)
    {
        return static_cast<SYM_NATIVE>(std::stold(s.substr(0, sl)) / std::stold(s.substr(sl + 1)));
    }
    return static_cast<SYM_NATIVE>(std::stold(s));
}

// a hardware arithmetic trap (integer division by zero) in the real code is reported like a failed assertion
inline void sigfpe_handler(int)
{
    if (trap::armed())
    {
        trap::message() = "SIGFPE: integer division by zero (or overflowing integer division) in the code under test";
        trap::restore_streams();
        if (trap::escape()) trap::escape()();
        std::longjmp(trap::buf(), 1);
    }
    std::fprintf(stderr, "SIGFPE outside path\n");
    std::_Exit(3);
}

inline void install_sigfpe_trap()
{
    struct sigaction sa;
    std::memset(&sa, 0, sizeof sa);
    sa.sa_handler = sigfpe_handler;
    sa.sa_flags = SA_NODEFER;
    sigemptyset(&sa.sa_mask);
    sigaction(SIGFPE, &sa, nullptr);
}

template <typename BodyS, typename BodyD>
int run_harness(std::string const& harness_name, options const& opt, BodyS body_sym, BodyD body_dbl)
{
    auto t0 = std::chrono::steady_clock::now();
    auto elapsed = [&]() { return std::chrono::duration<double>(std::chrono::steady_clock::now() - t0).count(); };
    install_sigfpe_trap();
    trap::cout_buf() = std::cout.rdbuf();

    if (opt.mode == "replay")
    {
        // replay file: line 1 = check name, line 2 = choices, line 3.. = inputs (decimal)
        std::ifstream f(opt.replay_file);
        std::string check_name, line;
        std::getline(f, check_name);
        H<SYM_NATIVE> h;
        h.cfg = opt.cfg;
        std::getline(f, line);
        { std::istringstream is(line); int c; while (is >> c) h.choices.push_back(c); }
        while (std::getline(f, line)) { if (!line.empty()) h.inputs.push_back(parse_decimal(line)); }
        concrete_hook::h() = &h;
        canon_table<SYM_NATIVE>::table().clear();
        canon_table<SYM_NATIVE>::draws().clear();
        bool threw = false;
        std::string what;
        try
        {
            trap::armed() = true;
            if (setjmp(trap::buf()) == 0) body_dbl(h);
            else h.failed.insert("no_assertion_failure");
            trap::armed() = false;
        }
        catch (std::exception const& ex) { threw = true; what = ex.what(); }
        catch (abort_path const& ap) { threw = true; what = "abort:" + ap.why; }
        bool reproduced = h.failed.count(check_name) != 0;
        std::printf("replay harness=%s check=%s reproduced=%d threw=%d %s\n", harness_name.c_str(),
            check_name.c_str(), reproduced ? 1 : 0, threw ? 1 : 0, what.c_str());
        for (auto const& n : h.failed) std::printf("  failed-check %s\n", n.c_str());
        return reproduced ? 1 : 0;
    }

    engine& g = E();
    g.timeout_ms = opt.timeout_ms;
    g.split_parts = opt.split_parts; g.split_part = opt.split_part; g.split_depth = opt.split_depth;
    results res;
    H<real> h;
    h.cfg = opt.cfg;
    h.res = &res;
    h.smt2_dir = opt.smt2_dir;
    // concrete run of the same body with the native numeric type on given inputs / harness choices
    auto run_concrete = [&](std::vector<std::string> const& values, std::vector<int> const& choices, std::string& what) {
        H<SYM_NATIVE> hd;
        hd.cfg = opt.cfg;
        hd.choices = choices;
        for (auto const& sv : values)
        {
            SYM_NATIVE d = 0;
            try { d = parse_decimal(sv); } catch (...) { d = 0; }
            hd.inputs.push_back(d);
        }
        concrete_hook::h() = &hd;
        canon_table<SYM_NATIVE>::table().clear();
        canon_table<SYM_NATIVE>::draws().clear();
        std::set<std::string> failed;
        try
        {
            trap::armed() = true;
            if (setjmp(trap::buf()) == 0) body_dbl(hd);
            else { hd.failed.insert("no_assertion_failure"); what = trap::message(); }
            trap::armed() = false;
        }
        catch (std::exception const& ex) { hd.failed.insert("no_unexpected_exception"); what = ex.what(); }
        catch (abort_path const&) {}
        concrete_hook::h() = nullptr;
        return hd.failed;
    };
    std::size_t const validate_max = 2;

    std::vector<dec> prefix;
    bool complete = false;
    bool budget_hit = false;
    while (true)
    {
        g.begin_path(prefix);
        canon_table<real>::table().clear();
        canon_table<real>::draws().clear();
        bool finished = false;
        results const snapshot = (g.split_parts > 1 && g.split_part != 0) ? res : results();
        try
        {
            trap::armed() = true;
            if (setjmp(trap::buf()) == 0)
            {
                body_sym(h);
                finished = true;
            }
            else
            {
                // a libstdc++ assertion (e.g. vector index out of range) fired on this path
                trap::armed() = false;
                g.events.push_back("ASSERT:" + trap::message());
                h.check("no_assertion_failure", cond<real>(false));
                finished = true;
            }
            trap::armed() = false;
        }
        catch (std::exception const& ex)
        {
            // the real code throws where the harness does not expect it (e.g. vector::at out of range)
            trap::armed() = false;
            g.events.push_back(std::string("EXCEPTION:") + ex.what());
            h.check("no_unexpected_exception", cond<real>(false));
            finished = true;
        }
        catch (abort_path const& ap)
        {
            trap::armed() = false;
            if (ap.why != "other-part") ++res.abort_reasons[ap.why];
            if (ap.why == "other-part") {}
            else if (ap.why == "infeasible") ++res.aborted_infeasible;
            else if (ap.why == "unknown") ++res.aborted_unknown;
            else if (ap.why.compare(0, 3, "ub:") == 0)
            {
                // the real code converts a NaN / infinite / negative / huge value to an unsigned integer on
                // this path: undefined behaviour (whatever follows is meaningless)
                ++res.aborted_ub;
                g.events.push_back(ap.why + (g.ub_log.empty() ? "" : (" " + g.ub_log.back())));
                std::size_t const before = res.violations.size();
                h.check("no_undefined_float_to_integer_conversion", cond<real>(false));
                for (std::size_t q = before; q < res.violations.size(); ++q) res.violations[q].ub_class = true;
            }
            else ++res.aborted_cap;
        }
        if (g.split_parts > 1 && g.split_part != 0 && g.trace.size() < g.split_depth)
        {
            // short paths (fewer decisions than the split depth) belong to part 0
            res = snapshot;
            finished = false;
        }
        // the first completed path and the first one whose number is >= 2 + seed % 8 are validated
        bool const pick = res.validated_paths == 0 || (res.validated_paths == 1 && res.paths + 1 >= 2 + opt.seed % 8);
        if (finished && pick && res.validated_paths < validate_max && res.violations.empty())
        {
            // translator validation: a model of this path's condition, run through the real code with the native type,
            // must not fail any obligation the symbolic run discharged
            z3::model m(g.ctx);
            if (g.check({}, &m) == z3::sat)
            {
                std::vector<std::string> values;
                for (auto const& in : g.inputs) values.push_back(H<real>::model_value(m, in));
                std::vector<int> const choices = g.user_choices;
                std::string what;
                std::set<std::string> const failed = run_concrete(values, choices, what);
                ++res.validated_paths;
                for (auto const& n : failed) res.validation_disagreements.push_back(n + (what.empty() ? "" : (" (" + what + ")")));
                if (!failed.empty() && std::getenv("SYM_DEBUG_VALIDATION"))
                {
                    std::ofstream f(std::getenv("SYM_DEBUG_VALIDATION"));
                    f << "validation\n";
                    for (auto c : choices) f << c << " ";
                    f << "\n";
                    for (auto const& v : values) f << v << "\n";
                }
            }
        }
        if (finished)
        {
            ++res.paths;
            if (res.samples.size() < 3)
            {
                std::ostringstream s;
                s << "path " << res.paths << ": decisions=" << g.trace.size() << " pc=";
                std::size_t n = 0;
                for (auto const& c : g.pc)
                {
                    std::ostringstream one; one << c;
                    std::string str = one.str();
                    if (str.size() > 160) str = str.substr(0, 160) + "...";
                    s << "[" << str << "]";
                    if (++n >= 8) { s << "..."; break; }
                }
                res.samples.push_back(s.str());
            }
        }
        res.decisions += g.trace.size();
        if (!g.next_prefix(prefix))
        {
            complete = true;
            break;
        }
        if (res.paths + res.aborted_infeasible >= opt.max_paths || elapsed() > opt.budget_s)
        {
            budget_hit = true;
            break;
        }
    }

    // concrete replay of violations
    for (auto& v : res.violations)
    {
        if (v.ub_class)
        {
            v.confirmed = true;
            v.note += "UB-class: reported without concrete replay;";
            ++res.checks[v.check].confirmed;
            continue;
        }
        H<SYM_NATIVE> hd;
        hd.cfg = opt.cfg;
        hd.choices = v.choices;
        for (auto const& s : v.input_values)
        {
            SYM_NATIVE d = 0;
            try { d = parse_decimal(s); } catch (...) { d = 0; }
            hd.inputs.push_back(d);
        }
        concrete_hook::h() = &hd;
        canon_table<SYM_NATIVE>::table().clear();
        canon_table<SYM_NATIVE>::draws().clear();
        v.replayed = true;
        try
        {
            trap::armed() = true;
            if (setjmp(trap::buf()) == 0) body_dbl(hd);
            else hd.failed.insert("no_assertion_failure");
            trap::armed() = false;
        }
        catch (std::exception const& ex)
        {
            // the real code, run concretely on the counterexample, ends in an exception the harness
            // does not expect: the misbehaviour reproduces (in a different guise)
            hd.failed.insert(v.check);
            v.note += std::string("replay threw: ") + ex.what() + ";";
        }
        catch (abort_path const&) {}
        // reproduced: the same obligation fails concretely, or the concrete run of the real code dies in a failed
        // assertion / unexpected exception (the same defect showing up in a cruder way)
        v.confirmed = hd.failed.count(v.check) != 0 || hd.failed.count("no_assertion_failure") != 0 ||
            hd.failed.count("no_unexpected_exception") != 0;
        if (!hd.failed.empty())
        {
            v.note += "replay failed:";
            for (auto const& n : hd.failed) v.note += " " + n;
            v.note += ";";
        }
        if (v.confirmed) ++res.checks[v.check].confirmed;
    }

    // output
    std::ostringstream o;
    o << "{\n \"harness\": \"" << jesc(harness_name) << "\",\n \"cfg\": {";
    { bool first = true; for (auto const& kv : opt.cfg) { o << (first ? "" : ", ") << "\"" << kv.first << "\": " << kv.second; first = false; } }
    o << "},\n \"complete\": " << (complete ? "true" : "false") << ", \"budget_hit\": " << (budget_hit ? "true" : "false")
      << ",\n \"paths\": " << res.paths << ", \"aborted_infeasible\": " << res.aborted_infeasible
      << ", \"aborted_unknown\": " << res.aborted_unknown << ", \"aborted_cap\": " << res.aborted_cap
      << ", \"aborted_ub\": " << res.aborted_ub << ", \"decisions\": " << res.decisions
      << ",\n \"queries\": " << g.queries << ", \"q_sat\": " << g.q_sat << ", \"q_unsat\": " << g.q_unsat
      << ", \"q_unknown\": " << g.q_unknown << ", \"solver_s\": " << g.solver_s << ", \"wall_s\": " << elapsed()
      << ", \"ub_events\": " << g.ub_events << ",\n \"abort_reasons\": {";
    { bool first = true; for (auto const& kv : res.abort_reasons) { o << (first ? "" : ", ") << "\"" << jesc(kv.first) << "\": " << kv.second; first = false; } }
    o << "},\n \"ub_log\": [";
    { bool first = true; for (auto const& s : g.ub_log) { o << (first ? "" : ", ") << "\"" << jesc(s) << "\""; first = false; } }
    o << "],\n \"checks\": {";
    { bool first = true; for (auto const& kv : res.checks) {
        o << (first ? "" : ",") << "\n  \"" << jesc(kv.first) << "\": {\"reached\": " << kv.second.reached
          << ", \"discharged\": " << kv.second.discharged << ", \"violated\": " << kv.second.violated
          << ", \"unknown\": " << kv.second.unknown << ", \"confirmed\": " << kv.second.confirmed << "}";
        first = false; } }
    o << "\n },\n \"violations\": [";
    { bool first = true; for (auto const& v : res.violations) {
        o << (first ? "" : ",") << "\n  {\"check\": \"" << jesc(v.check) << "\", \"confirmed\": " << (v.confirmed ? "true" : "false")
          << ", \"note\": \"" << jesc(v.note) << "\", \"choices\": [";
        for (std::size_t i = 0; i != v.choices.size(); ++i) o << (i ? "," : "") << v.choices[i];
        o << "], \"inputs\": {";
        for (std::size_t i = 0; i != v.input_names.size(); ++i)
            o << (i ? ", " : "") << "\"" << jesc(v.input_names[i]) << "\": \"" << jesc(v.input_values[i]) << "\"";
        o << "}}";
        first = false; } }
    o << "\n ],\n \"samples\": [";
    { bool first = true; for (auto const& s : res.samples) { o << (first ? "" : ",") << "\n  \"" << jesc(s) << "\""; first = false; } }
    o << "\n ],\n \"validated_paths\": " << res.validated_paths << ", \"validation_disagreements\": [";
    { bool first = true; for (auto const& s : res.validation_disagreements) { o << (first ? "" : ", ") << "\"" << jesc(s) << "\""; first = false; } }
    o << "],\n \"smt2_files\": " << res.smt2_files.size() << "\n}\n";

    if (!opt.out.empty()) { std::ofstream f(opt.out); f << o.str(); }
    else std::cout << o.str();
    return 0;
}

}

namespace std
{
// interposes libstdc++'s assertion handler (the executable's definition wins over the shared
// library's)
__attribute__((noreturn)) void __glibcxx_assert_fail(const char* file, int line, const char* function,
    const char* condition) noexcept
{
    if (sym::trap::armed())
    {
        sym::trap::message() = std::string(file ? file : "?") + ":" + std::to_string(line) + ": " +
            (condition ? condition : "?") + " in " + (function ? std::string(function).substr(0, 120) : "?");
        sym::trap::restore_streams();
        if (sym::trap::escape()) sym::trap::escape()();
        std::longjmp(sym::trap::buf(), 1);
    }
    std::fprintf(stderr, "assertion failed outside path: %s:%d %s\n", file, line, condition);
    std::abort();
}
}

// interposes glibc's handler for failed assert() (the library's headers use <cassert>)
extern "C" __attribute__((noreturn)) void __assert_fail(const char* assertion, const char* file,
    unsigned int line, const char* function) noexcept
{
    if (sym::trap::armed())
    {
        sym::trap::message() = std::string(file ? file : "?") + ":" + std::to_string(line) + ": assert(" +
            (assertion ? assertion : "?") + ") in " + (function ? std::string(function).substr(0, 120) : "?");
        sym::trap::restore_streams();
        if (sym::trap::escape()) sym::trap::escape()();
        std::longjmp(sym::trap::buf(), 1);
    }
    std::fprintf(stderr, "assertion failed outside path: %s:%u %s\n", file, line, assertion);
    std::abort();
}

#define VERIF_MAIN(NAME, BODY)                                                                    \
    int main(int argc, char** argv)                                                               \
    {                                                                                             \
        sym::options opt = sym::parse_args(argc, argv);                                           \
        int const rc = sym::run_harness(NAME, opt, [](sym::H<sym::real>& h) { BODY<sym::real>(h); },      \
            [](sym::H<SYM_NATIVE>& h) { BODY<SYM_NATIVE>(h); });                                          \
        std::fflush(nullptr);                                                                     \
        std::cout.flush();                                                                        \
        std::_Exit(rc); /* abandoned paths leak objects on purpose: skip static destruction */     \
    }

#endif
