// mpi.h - in-process MPI shim for the verification harnesses (found before the system mpi.h).
// Ranks run as coroutines (ucontext) switched at collectives; MPI_Allreduce sums element-wise in
// rank order.  Only what hep-mc uses is provided.
#ifndef VERIF_MPI_STUB_H
#define VERIF_MPI_STUB_H

#include <cstddef>

typedef int MPI_Comm;
typedef int MPI_Datatype;
typedef int MPI_Op;

#define MPI_COMM_WORLD 0
#define MPI_SUM 1
#define MPI_IN_PLACE (reinterpret_cast<void*>(-1))
#define MPI_SUCCESS 0

// datatypes: the shim needs to know how to add two elements
#define MPI_UNSIGNED 11
#define MPI_UNSIGNED_LONG 12
#define MPI_UNSIGNED_LONG_LONG 13
#define MPI_FLOAT 21
#define MPI_DOUBLE 22
#define MPI_LONG_DOUBLE 23
// the symbolic numeric type: hep::mpi_datatype<sym::real>() is specialised by the harness to this
#define MPI_SYM_REAL 99

int MPI_Comm_rank(MPI_Comm comm, int* rank);
int MPI_Comm_size(MPI_Comm comm, int* size);
int MPI_Allreduce(void const* sendbuf, void* recvbuf, int count, MPI_Datatype datatype, MPI_Op op, MPI_Comm comm);

#endif
