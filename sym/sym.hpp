// sym.hpp - symbolic numeric type for executing the real hep-mc templates symbolically.
//
// sym::real is an "exact extended real": kind in {finite, +inf, -inf, NaN} is concrete per path,
// the finite value is a z3 Real term.  Comparisons ask the engine for a branch decision
// (fork-by-replay DFS).  See /verif/DESIGN.md section 1 (Route S).
#ifndef VERIF_SYM_HPP
#define VERIF_SYM_HPP

#ifdef SYM_REAL_IS_FLOATING_POINT
// only for the harness that runs libstdc++'s generic std::generate_canonical with T = sym::real: that template
// insists on std::is_floating_point<T> and calls std::nextafter qualified (so the overload must be declared
// before <random> is seen)
#include <type_traits>
namespace sym { class real; }
namespace std
{
template <> struct is_floating_point<sym::real> : true_type {};
sym::real nextafter(sym::real const& x, sym::real const& y);
}
#endif

#include <z3++.h>

#include <chrono>
#include <cstdlib>
#include <cmath>
#include <cstddef>
#include <cstdint>
#include <iostream>
#include <istream>
#include <limits>
#include <map>
#include <ostream>
#include <random>
#include <sstream>
#include <stdexcept>
#include <string>
#include <type_traits>
#include <utility>
#include <vector>

// numeric-type flavour mirrored by sym::real's numeric_limits (float / double / long double)
#if !defined(SYM_DIGITS)
#define SYM_DIGITS 53
#endif
#if SYM_DIGITS == 24
#define SYM_DIGITS10 6
#define SYM_MAX_DIGITS10 9
#define SYM_NATIVE float
#elif SYM_DIGITS == 53
#define SYM_DIGITS10 15
#define SYM_MAX_DIGITS10 17
#define SYM_NATIVE double
#elif SYM_DIGITS == 64
#define SYM_DIGITS10 18
#define SYM_MAX_DIGITS10 21
#define SYM_NATIVE long double
#else
#error unsupported SYM_DIGITS
#endif
// raw draws of the 32-bit stub engine per canonical number: ceil(digits / 32)
#define SYM_RAW_PER_CANONICAL ((SYM_DIGITS + 31) / 32)

namespace sym
{

enum kind_t { FIN = 0, PINF = 1, NINF = 2, NANK = 3 };

// thrown to abandon the current path
struct abort_path
{
    std::string why;   // "infeasible", "unknown", "cap:<what>", ...
};

struct dec
{
    int choice;
    int nalt;
    bool forced;   // no alternative left to explore at this decision
    bool user;     // made by choose() (harness-level fork), not by a solver branch
    unsigned seq;  // running number of the branch()/choose() invocation (replay alignment check)
};

struct token
{
    int kind;
    unsigned ast_index;   // index into engine::token_exprs (valid if kind == FIN)
    bool scientific;     // floatfield == scientific
    int precision;
    bool lossless;       // the requested format prints every value of the numeric type with enough digits to read it back
};

inline z3::expr var(std::string const& n);

class engine
{
public:
    z3::context ctx;
    std::vector<z3::expr> pc;          // path condition (conjunction)
    std::vector<dec> prefix;           // decisions to replay
    std::size_t pos = 0;
    std::vector<dec> trace;            // decisions taken on this path
    std::vector<int> user_choices;     // choose() results on this path (for concrete replay)
    std::vector<z3::expr> inputs;      // named symbolic inputs created on this path, in order
    std::vector<std::string> input_names;
    std::vector<z3::expr> token_exprs; // expressions behind '@<n>' stream tokens
    std::vector<token> tokens;
    std::map<std::pair<unsigned, unsigned>, unsigned> memo_pow; // (id x, id a) -> index in memo
    std::map<unsigned, unsigned> memo_log, memo_sqrt;
    std::vector<z3::expr> memo;
    std::vector<std::string> events;   // free-form event log of the harness (per path)
    std::map<unsigned, bool> decided;  // truth value of conditions already decided on this path
    unsigned seq = 0;                  // branch()/choose() invocations on this path
    // work splitting: a path belongs to part hash(first split_depth decisions) % split_parts
    unsigned split_parts = 1, split_part = 0, split_depth = 10;
    void split_check()
    {
        if (split_parts <= 1 || trace.size() != split_depth) return;
        std::uint64_t hsh = 1469598103934665603ull;
        for (auto const& d : trace) { hsh ^= static_cast<std::uint64_t>(d.choice + 1); hsh *= 1099511628211ull; }
        if (hsh % split_parts != split_part) throw abort_path{"other-part"};
    }
    // every term that decides control flow is kept alive for the whole process: z3 re-uses the ids of
    // dead ASTs and its simplifier orders arguments by id, so keeping the terms alive makes the
    // replayed prefix of a path build exactly the same terms as the original run
    std::vector<z3::expr> immortal;
    void keep(z3::expr const& e) { immortal.push_back(e); }
    unsigned timeout_ms = 60000;
    unsigned fresh_counter = 0;
    std::size_t conv_cap = 64;         // T -> size_t conversions: values >= cap are represented by cap
    bool conv_cap_hit = false;

    // statistics (whole exploration)
    std::size_t queries = 0, q_sat = 0, q_unsat = 0, q_unknown = 0;
    double solver_s = 0.0;
    std::size_t ub_events = 0;         // e.g. conversion of NaN/negative to size_t
    std::vector<std::string> ub_log;

    static engine& get()
    {
        static engine e;
        return e;
    }

    void begin_path(std::vector<dec> const& p)
    {
        if (std::getenv("SYM_DEBUG_SEQ")) std::cerr << "PATH BEGIN prefix " << p.size() << "\n";
        pc.clear();
        prefix = p;
        pos = 0;
        trace.clear();
        user_choices.clear();
        inputs.clear();
        input_names.clear();
        token_exprs.clear();
        tokens.clear();
        memo_pow.clear();
        memo_log.clear();
        memo_sqrt.clear();
        memo.clear();
        events.clear();
        decided.clear();
        seq = 0;
        fresh_counter = 0;
        conv_cap_hit = false;
    }

    // computes the prefix of the next path; returns false if exploration is complete
    bool next_prefix(std::vector<dec>& out) const
    {
        std::vector<dec> t = trace;
        while (!t.empty() && (t.back().forced || t.back().choice + 1 >= t.back().nalt))
        {
            t.pop_back();
        }
        if (t.empty())
        {
            return false;
        }
        t.back().choice += 1;
        out = t;
        return true;
    }

    // probe = true: an optional query whose "don't know" is harmless (not counted as an undecided obligation)
    z3::check_result check(std::vector<z3::expr> const& extra, z3::model* m = nullptr, bool probe = false)
    {
        auto t0 = std::chrono::steady_clock::now();
        z3::solver s(ctx);   // fresh solver: one-shot (non-incremental) mode
        z3::params p(ctx);
        p.set("timeout", timeout_ms);
        // a probe is bounded by z3's deterministic resource counter rather than by wall-clock time, so that a replayed
        // prefix takes the same decisions whatever the load of the machine
        if (probe) { p.set("timeout", 600000u); p.set("rlimit", 3000000u); }
        s.set(p);
        for (auto const& c : pc) s.add(c);
        for (auto const& c : extra) s.add(c);
        z3::check_result r = z3::unknown;
        try
        {
            r = s.check();
            if (r == z3::sat && m != nullptr)
            {
                *m = s.get_model();
            }
        }
        catch (z3::exception const&)
        {
            r = z3::unknown;
        }
        ++queries;
        if (r == z3::sat) ++q_sat; else if (r == z3::unsat) ++q_unsat; else if (!probe) ++q_unknown;
        solver_s += std::chrono::duration<double>(std::chrono::steady_clock::now() - t0).count();
        return r;
    }

    std::string smt2(std::vector<z3::expr> const& extra)
    {
        z3::solver s(ctx);
        for (auto const& c : pc) s.add(c);
        for (auto const& c : extra) s.add(c);
        return s.to_smt2();
    }

    bool feasible(z3::expr const& c)
    {
        z3::check_result r = check({c});
        if (r == z3::unknown)
        {
            throw abort_path{"unknown"};
        }
        return r == z3::sat;
    }

    // symbolic two-way decision; returns the truth value of `c` on this path
    bool branch(z3::expr const& c0)
    {
        z3::expr c = c0.simplify();
        keep(c0);
        keep(c);
        ++seq;
        if (std::getenv("SYM_DEBUG_SEQ") && std::atoi(std::getenv("SYM_DEBUG_SEQ")) > 1)
            std::cerr << "B seq " << seq << " pos " << pos << " id " << c.id() << " " << c << "\n";
        if (c.is_true()) return true;
        if (c.is_false()) return false;
        {
            // a condition that was decided earlier on this path keeps its value (no new decision)
            auto it = decided.find(c.id());
            if (it != decided.end())
            {
                if (std::getenv("SYM_DEBUG_SEQ") && std::atoi(std::getenv("SYM_DEBUG_SEQ")) > 1) std::cerr << "  hit " << it->second << "\n";
                return it->second;
            }
        }

        if (pos < prefix.size())
        {
            dec d = prefix[pos];
            if (d.user || d.seq != seq)
            {
                if (std::getenv("SYM_DEBUG_SEQ"))
                    std::cerr << "misaligned at pos " << pos << " expected seq " << d.seq << " user " << d.user << " got seq " << seq
                              << " cond " << c << "\n";
                throw abort_path{"replay-misaligned"};
            }
            bool const last = (pos + 1 == prefix.size());
            ++pos;
            z3::expr side = (d.choice == 0) ? c : !c;
            if (last && !d.user)
            {
                // this is the freshly flipped decision: its side has not been checked yet
                if (!feasible(side))
                {
                    d.forced = true;
                    trace.push_back(d);
                    throw abort_path{"infeasible"};
                }
            }
            trace.push_back(d);
            pc.push_back(side);
            remember(c, d.choice == 0);
            split_check();
            return d.choice == 0;
        }

        ++pos;
        if (feasible(c))
        {
            trace.push_back(dec{0, 2, false, false, seq});
            pc.push_back(c);
            remember(c, true);
            split_check();
            return true;
        }
        // `c` is infeasible, so (the path condition being satisfiable) `!c` holds
        trace.push_back(dec{1, 2, true, false, seq});
        pc.push_back(!c);
        remember(c, false);
        split_check();
        return false;
    }

    void remember(z3::expr const& c, bool value)
    {
        if (std::getenv("SYM_DEBUG_SEQ") && std::atoi(std::getenv("SYM_DEBUG_SEQ")) > 1)
            std::cerr << "  record id " << c.id() << " value " << value << " trace " << trace.size() << " prefix " << prefix.size() << "\n";
        z3::expr n = (!c).simplify();
        keep(n);
        decided[c.id()] = value;
        decided[n.id()] = !value;
    }

    // harness-level n-way fork (no solver involved)
    int choose(int n)
    {
        if (n <= 1) return 0;
        int c = 0;
        ++seq;
        if (pos < prefix.size())
        {
            dec d = prefix[pos];
            if (!d.user || d.seq != seq || d.nalt != n)
            {
                throw abort_path{"replay-misaligned"};
            }
            c = d.choice;
            trace.push_back(dec{c, n, false, true, seq});
        }
        else
        {
            trace.push_back(dec{0, n, false, true, seq});
        }
        ++pos;
        user_choices.push_back(c);
        split_check();
        return c;
    }

    void assume(z3::expr const& c0)
    {
        z3::expr c = c0.simplify();
        if (c.is_true()) return;
        if (c.is_false() || !feasible(c))
        {
            throw abort_path{"infeasible"};
        }
        pc.push_back(c);
    }

    // adds a constraint that is a definitional fact about a fresh variable (never infeasible)
    void define(z3::expr const& c)
    {
        pc.push_back(c);
    }

    z3::expr fresh(std::string const& base)
    {
        std::string n = base + "!" + std::to_string(fresh_counter++);
        return var(n);
    }

    z3::expr input(std::string const& name)
    {
        std::string n = name + "#" + std::to_string(inputs.size());
        z3::expr e = var(n);
        inputs.push_back(e);
        input_names.push_back(n);
        return e;
    }

    void ub(std::string const& what)
    {
        ++ub_events;
        if (ub_log.size() < 16) ub_log.push_back(what);
        events.push_back("UB:" + what);
    }
};

inline engine& E() { return engine::get(); }

#ifdef SYM_FP
constexpr bool bit_precise = true;
#else
constexpr bool bit_precise = false;
#endif

#ifdef SYM_FP
// bit-precise mode: sym::real is an IEEE binary floating point value of the numeric flavour (z3 FloatingPoint
// theory, round to nearest even): rounding, overflow, NaN, infinities and signed zeros are exact; pow/log are
// not available (paths that need them are abandoned and reported)
#if SYM_DIGITS == 24
#define SYM_FP_EBITS 8
#elif SYM_DIGITS == 53
#define SYM_FP_EBITS 11
#else
#define SYM_FP_EBITS 15
#endif
inline z3::sort fp_sort() { return E().ctx.fpa_sort(SYM_FP_EBITS, SYM_DIGITS); }
inline z3::expr num(long double v)
{
    engine& g = E();
    g.ctx.set_rounding_mode(z3::RNE);
    z3::sort s = fp_sort();
    if (std::isnan(v)) return g.ctx.fpa_nan(s);
    if (std::isinf(v)) return g.ctx.fpa_inf(s, v < 0);
    // constants of the library and of the harnesses are exactly representable in double; larger precision is
    // only needed for the 80 bit flavour and goes through an exact double + rest decomposition
    double const hi = static_cast<double>(v);
    z3::expr a(g.ctx, Z3_mk_fpa_numeral_double(g.ctx, hi, s));
    long double const rest = v - static_cast<long double>(hi);
    if (rest == 0) return a;
    z3::expr b(g.ctx, Z3_mk_fpa_numeral_double(g.ctx, static_cast<double>(rest), s));
    return (a + b).simplify();
}
inline z3::expr var(std::string const& n) { return E().ctx.constant(n.c_str(), fp_sort()); }
inline z3::expr eqn(z3::expr const& a, z3::expr const& b) { return z3::fp_eq(a, b); }
inline z3::expr special_bool(z3::expr const& a) { return a.mk_is_nan() || a.mk_is_inf(); }
#else
inline z3::expr var(std::string const& n) { return E().ctx.real_const(n.c_str()); }
inline z3::expr eqn(z3::expr const& a, z3::expr const& b) { return a == b; }
#endif

template <typename A>
using if_arith = typename std::enable_if<std::is_arithmetic<A>::value, int>::type;

inline z3::expr rational_of(long double v)
{
    // exact conversion of a finite binary floating point value
    z3::context& c = E().ctx;
    bool neg = v < 0;
    if (neg) v = -v;
    int ex = 0;
    long double m = std::frexp(v, &ex);   // v = m * 2^ex, 0.5 <= m < 1
    // take up to 64 mantissa bits
    std::uint64_t num = 0;
    int used = 0;
    while (m != 0 && used < 64)
    {
        m *= 2;
        num <<= 1;
        if (m >= 1) { num |= 1; m -= 1; }
        ++used;
    }
    ex -= used;
    z3::expr e = c.real_val(std::to_string(num).c_str());
    if (ex > 0)
    {
        for (int i = 0; i < ex; ++i) e = e * c.real_val(2);
    }
    else if (ex < 0)
    {
        std::string den = "1";
        // 2^-ex as decimal string through repeated doubling
        std::vector<int> digits{1};
        for (int i = 0; i < -ex; ++i)
        {
            int carry = 0;
            for (auto& d : digits) { int x = d * 2 + carry; d = x % 10; carry = x / 10; }
            if (carry) digits.push_back(carry);
        }
        den.clear();
        for (auto it = digits.rbegin(); it != digits.rend(); ++it) den.push_back(char('0' + *it));
        e = c.real_val((std::to_string(num) + "/" + den).c_str());
    }
    if (neg) e = -e;
    return e.simplify();
}

class real
{
public:
    int k;
    z3::expr e;

#ifdef SYM_FP
    real() : k(FIN), e(num(0.0L)) {}
#else
    real() : k(FIN), e(E().ctx.real_val(0)) {}
#endif

    template <typename A, if_arith<A> = 0>
    real(A v) : k(FIN), e(E().ctx)
    {
        init(v, std::is_floating_point<A>());
    }

    explicit real(z3::expr const& x) : k(FIN), e(x) { E().keep(x); }

    static real special(int kind)
    {
        real r;
#ifdef SYM_FP
        // NaN and the infinities are ordinary values of the floating point sort
        if (kind == NANK) r.e = num(std::numeric_limits<long double>::quiet_NaN());
        else if (kind == PINF) r.e = num(std::numeric_limits<long double>::infinity());
        else if (kind == NINF) r.e = num(-std::numeric_limits<long double>::infinity());
#else
        r.k = kind;
#endif
        return r;
    }

    bool fin() const { return k == FIN; }

    // T -> std::size_t (truncation); concretised by enumerating the feasible integers
    operator std::size_t() const
    {
        engine& g = E();
#ifdef SYM_FP
        if (g.branch(special_bool(e)))
        {
            g.ub("convert non-finite to size_t");
            throw abort_path{"ub:fptoui-nonfinite"};
        }
        if (g.branch(e <= num(-1.0L)))
#else
        if (k != FIN)
        {
            g.ub("convert non-finite to size_t");
            throw abort_path{"ub:fptoui-nonfinite"};
        }
        if (g.branch(e <= g.ctx.real_val(-1)))
#endif
        {
            {
                std::ostringstream o;
                o << e;
                std::string str = o.str();
                if (str.size() > 300) str = str.substr(0, 300) + "...";
                g.ub("convert value <= -1 to size_t: " + str);
                if (std::getenv("SYM_DEBUG_UB")) { std::cerr << "UB pc:\n"; for (auto const& c : g.pc) std::cerr << "  " << c << "\n"; }
            }
            throw abort_path{"ub:fptoui-negative"};
        }
        // floor by bisection over [0, cap): log2(cap) decisions (values >= cap are represented by cap)
        auto below = [&](std::size_t i) {
#ifdef SYM_FP
            return g.branch(e < num(static_cast<long double>(i)));
#else
            return g.branch(e < g.ctx.real_val(std::to_string(i).c_str()));
#endif
        };
        if (below(g.conv_cap))
        {
            std::size_t lo = 0, hi = g.conv_cap;
            while (hi - lo > 1)
            {
                std::size_t const mid = lo + (hi - lo) / 2;
                if (below(mid)) hi = mid; else lo = mid;
            }
            return lo;
        }
#ifdef SYM_FP
        if (g.branch(e >= num(18446744073709551616.0L)))
#else
        if (g.branch(e >= g.ctx.real_val("18446744073709551616")))
#endif
        {
            g.ub("convert value >= 2^64 to size_t");
            throw abort_path{"ub:fptoui-too-large"};
        }
        g.conv_cap_hit = true;
        return g.conv_cap;
    }

    real& operator+=(real const& o);
    real& operator-=(real const& o);
    real& operator*=(real const& o);
    real& operator/=(real const& o);

private:
#ifdef SYM_FP
    template <typename A>
    void init(A v, std::true_type) { e = num(static_cast<long double>(v)); }
    template <typename A>
    void init(A v, std::false_type)
    {
        // integer -> floating point conversion rounds to nearest (as the hardware does)
        e = num(static_cast<long double>(static_cast<SYM_NATIVE>(v)));
    }
#else
    template <typename A>
    void init(A v, std::true_type)
    {
        if (std::isnan(v)) { k = NANK; e = E().ctx.real_val(0); }
        else if (std::isinf(v)) { k = v > 0 ? PINF : NINF; e = E().ctx.real_val(0); }
        else if (v == static_cast<A>(static_cast<long long>(v)) && std::fabs(static_cast<long double>(v)) < 9e15L)
        {
            e = E().ctx.real_val(std::to_string(static_cast<long long>(v)).c_str());
        }
        else e = rational_of(static_cast<long double>(v));
    }

    template <typename A>
    void init(A v, std::false_type)
    {
        if (std::is_signed<A>::value)
            e = E().ctx.real_val(std::to_string(static_cast<long long>(v)).c_str());
        else
            e = E().ctx.real_val(std::to_string(static_cast<unsigned long long>(v)).c_str());
    }
#endif
};

// sign of a finite value: +1, -1 or 0 (forks)
inline int sign_of(real const& a)
{
    engine& g = E();
    if (g.branch(a.e > real(0).e)) return 1;
    if (g.branch(a.e < real(0).e)) return -1;
    return 0;
}

inline real operator-(real const& a)
{
    switch (a.k)
    {
    case FIN: return real((-a.e).simplify());
    case PINF: return real::special(NINF);
    case NINF: return real::special(PINF);
    default: return a;
    }
}

inline real add(real const& a, real const& b)
{
    if (a.k == NANK || b.k == NANK) return real::special(NANK);
    if (a.k == FIN && b.k == FIN) return real((a.e + b.e).simplify());
    if (a.k == FIN) return b;
    if (b.k == FIN) return a;
    return (a.k == b.k) ? a : real::special(NANK);
}

inline real mul(real const& a, real const& b)
{
    if (a.k == NANK || b.k == NANK) return real::special(NANK);
    if (a.k == FIN && b.k == FIN) return real((a.e * b.e).simplify());
    int sa = (a.k == FIN) ? sign_of(a) : (a.k == PINF ? 1 : -1);
    int sb = (b.k == FIN) ? sign_of(b) : (b.k == PINF ? 1 : -1);
    if (sa == 0 || sb == 0) return real::special(NANK);
    return real::special(sa * sb > 0 ? PINF : NINF);
}

inline real div(real const& a, real const& b)
{
    engine& g = E();
#ifdef SYM_FP
    return real((a.e / b.e).simplify());
#endif
    if (a.k == NANK || b.k == NANK) return real::special(NANK);
    if (a.k != FIN && b.k != FIN) return real::special(NANK);
    if (a.k == FIN && b.k != FIN) return real(g.ctx.real_val(0));
    if (a.k != FIN)
    {
        // inf / finite (signed zeros are outside the model: x/0 takes the sign of x)
        int sb = sign_of(b);
        int sa = (a.k == PINF) ? 1 : -1;
        if (sb == 0) sb = 1;
        return real::special(sa * sb > 0 ? PINF : NINF);
    }
    if (g.branch(b.e == 0))
    {
        int sa = sign_of(a);
        if (sa == 0) return real::special(NANK);
        return real::special(sa > 0 ? PINF : NINF);
    }
    return real((a.e / b.e).simplify());
}

inline real& real::operator+=(real const& o) { *this = add(*this, o); return *this; }
inline real& real::operator-=(real const& o) { *this = add(*this, -o); return *this; }
inline real& real::operator*=(real const& o) { *this = mul(*this, o); return *this; }
inline real& real::operator/=(real const& o) { *this = div(*this, o); return *this; }

// comparisons (IEEE semantics for the special kinds)
inline bool lt(real const& a, real const& b)
{
    if (a.k == NANK || b.k == NANK) return false;
    if (a.k == FIN && b.k == FIN) return E().branch(a.e < b.e);
    if (a.k == b.k) return false;
    if (a.k == NINF || b.k == PINF) return true;
    return false;
}

inline bool le(real const& a, real const& b)
{
    if (a.k == NANK || b.k == NANK) return false;
    if (a.k == FIN && b.k == FIN) return E().branch(a.e <= b.e);
    if (a.k == b.k) return true;
    if (a.k == NINF || b.k == PINF) return true;
    return false;
}

inline bool eq(real const& a, real const& b)
{
    if (a.k == NANK || b.k == NANK) return false;
    if (a.k == FIN && b.k == FIN) return E().branch(eqn(a.e, b.e));
    return a.k == b.k;
}

#define SYM_ARITH(OP, FN)                                                                         \
    inline real operator OP(real const& a, real const& b) { return FN; }                         \
    template <typename A, if_arith<A> = 0>                                                        \
    inline real operator OP(real const& a, A bb) { real b(bb); return FN; }                      \
    template <typename A, if_arith<A> = 0>                                                        \
    inline real operator OP(A aa, real const& b) { real a(aa); return FN; }

SYM_ARITH(+, add(a, b))
SYM_ARITH(-, add(a, -b))
SYM_ARITH(*, mul(a, b))
SYM_ARITH(/, div(a, b))

#define SYM_CMP(OP, FN)                                                                           \
    inline bool operator OP(real const& a, real const& b) { return FN; }                         \
    template <typename A, if_arith<A> = 0>                                                        \
    inline bool operator OP(real const& a, A bb) { real b(bb); return FN; }                      \
    template <typename A, if_arith<A> = 0>                                                        \
    inline bool operator OP(A aa, real const& b) { real a(aa); return FN; }

SYM_CMP(<, lt(a, b))
SYM_CMP(<=, le(a, b))
SYM_CMP(>, lt(b, a))
SYM_CMP(>=, le(b, a))
SYM_CMP(==, eq(a, b))
SYM_CMP(!=, !eq(a, b))

#ifdef SYM_FP
inline bool isfinite(real const& a) { return !E().branch(special_bool(a.e)); }
inline bool isnan(real const& a) { return E().branch(a.e.mk_is_nan()); }
inline bool isinf(real const& a) { return E().branch(a.e.mk_is_inf()); }
#else
inline bool isfinite(real const& a) { return a.k == FIN; }
inline bool isnan(real const& a) { return a.k == NANK; }
inline bool isinf(real const& a) { return a.k == PINF || a.k == NINF; }
#endif

inline real fabs(real const& a)
{
#ifdef SYM_FP
    return real(z3::abs(a.e).simplify());
#endif
    if (a.k == FIN) return real(z3::ite(a.e < 0, -a.e, a.e).simplify());
    if (a.k == NANK) return a;
    return real::special(PINF);
}
inline real abs(real const& a) { return fabs(a); }

inline real fmax(real const& a, real const& b)
{
#ifdef SYM_FP
    return real(z3::ite(a.e.mk_is_nan(), b.e, z3::ite(b.e.mk_is_nan(), a.e, z3::ite(a.e >= b.e, a.e, b.e))).simplify());
#endif
    if (a.k == NANK) return b;
    if (b.k == NANK) return a;
    if (a.k == FIN && b.k == FIN) return real(z3::ite(a.e >= b.e, a.e, b.e).simplify());
    if (a.k == PINF || b.k == PINF) return real::special(PINF);
    return (a.k == NINF) ? b : a;
}

inline real fmin(real const& a, real const& b)
{
#ifdef SYM_FP
    return real(z3::ite(a.e.mk_is_nan(), b.e, z3::ite(b.e.mk_is_nan(), a.e, z3::ite(a.e <= b.e, a.e, b.e))).simplify());
#endif
    if (a.k == NANK) return b;
    if (b.k == NANK) return a;
    if (a.k == FIN && b.k == FIN) return real(z3::ite(a.e <= b.e, a.e, b.e).simplify());
    if (a.k == NINF || b.k == NINF) return real::special(NINF);
    return (a.k == PINF) ? b : a;
}

inline real sqrt(real const& a)
{
    engine& g = E();
#ifdef SYM_FP
    g.ctx.set_rounding_mode(z3::RNE);
    return real(z3::sqrt(a.e, g.ctx.fpa_rounding_mode()).simplify());
#endif
    if (a.k == NANK || a.k == NINF) return real::special(NANK);
    if (a.k == PINF) return a;
    if (g.branch(a.e < 0)) return real::special(NANK);
    unsigned id = a.e.id();
    auto it = g.memo_sqrt.find(id);
    if (it != g.memo_sqrt.end()) return real(g.memo[it->second]);
    // sqrt(s*s) for an earlier root s (>= 0), e.g. the error of create_result(..., value, sqrt(v)):
    // re-use s if the path condition entails a.e == s*s (short query; "don't know" just means a fresh root)
    for (auto const& kv : g.memo_sqrt)
    {
        z3::expr const& sj = g.memo[kv.second];
        z3::check_result r = g.check({a.e != sj * sj}, nullptr, true);
        if (r == z3::unsat)
        {
            g.memo_sqrt[id] = kv.second;
            return real(sj);
        }
    }
    z3::expr s = g.fresh("sqrt");
    g.define(s >= 0);
    g.define(s * s == a.e);
    g.memo_sqrt[id] = g.memo.size();
    g.memo.push_back(s);
    return real(s);
}

// log: fresh variable constrained by the contract only (sign, log 1 = 0, log x <= x - 1)
inline real log(real const& a)
{
    engine& g = E();
#ifdef SYM_FP
    (void) a;
    throw abort_path{"cap:log-in-bit-precise-mode"};
#endif
    if (a.k == NANK || a.k == NINF) return real::special(NANK);
    if (a.k == PINF) return a;
    if (g.branch(a.e == 0)) return real::special(NINF);
    if (g.branch(a.e < 0)) return real::special(NANK);
    unsigned id = a.e.id();
    auto it = g.memo_log.find(id);
    if (it != g.memo_log.end()) return real(g.memo[it->second]);
    z3::expr l = g.fresh("log");
    g.define(z3::implies(a.e < 1, l < 0));
    g.define(z3::implies(a.e == 1, l == 0));
    g.define(z3::implies(a.e > 1, l > 0));
    g.define(l <= a.e - 1);
    g.memo_log[id] = g.memo.size();
    g.memo.push_back(l);
    return real(l);
}

// pow: fresh variable constrained by the contract only
inline real pow(real const& x, real const& a)
{
    engine& g = E();
#ifdef SYM_FP
    if (g.branch(eqn(a.e, real(0).e))) return real(1);
    if (g.branch(eqn(a.e, real(1).e)) && !g.branch(special_bool(x.e))) return x;
    throw abort_path{"cap:pow-in-bit-precise-mode"};
#endif
    if (a.k == FIN && g.branch(a.e == 0)) return real(g.ctx.real_val(1));
    if (x.k == NANK || a.k == NANK) return real::special(NANK);
    if (a.k != FIN || x.k != FIN)
    {
        throw abort_path{"cap:pow-nonfinite-argument"};
    }
    if (g.branch(x.e == 0))
    {
        if (g.branch(a.e > 0)) return real(g.ctx.real_val(0));
        return real::special(PINF);
    }
    if (g.branch(x.e < 0))
    {
        throw abort_path{"cap:pow-negative-base"};
    }
    std::pair<unsigned, unsigned> key(x.e.id(), a.e.id());
    auto it = g.memo_pow.find(key);
    if (it != g.memo_pow.end()) return real(g.memo[it->second]);
    z3::expr p = g.fresh("pow");
    g.define(p > 0);
    g.define(z3::implies(x.e == 1, p == 1));
    g.define(z3::implies(a.e == 1, p == x.e));
    g.define(z3::implies(a.e > 0 && x.e < 1, p < 1));
    g.define(z3::implies(a.e > 0 && x.e > 1, p > 1));
    g.define(z3::implies(a.e < 0 && x.e < 1, p > 1));
    g.define(z3::implies(a.e < 0 && x.e > 1, p < 1));
    g.memo_pow[key] = g.memo.size();
    g.memo.push_back(p);
    return real(p);
}

template <typename A, if_arith<A> = 0>
inline real pow(real const& x, A a) { return pow(x, real(a)); }

// nexttoward(1, 0): "largest value below one" of the numeric type; contract: 1 - 2^-20 <= v < 1
inline real nexttoward(real const& x, real const& /*to*/)
{
    engine& g = E();
#ifdef SYM_FP
    // only used as nexttoward(1, 0): the largest value below one
    if (g.branch(eqn(x.e, real(1).e)))
    {
        long double const one = 1.0L;
        return real(num(static_cast<long double>(std::nexttoward(static_cast<SYM_NATIVE>(one), 0.0L))));
    }
    throw abort_path{"cap:nexttoward-other-than-one"};
#endif
    z3::expr v = g.fresh("nexttoward");
    if (x.k == FIN)
    {
        g.define(v < x.e);
        g.define(v >= x.e - g.ctx.real_val("1/1048576"));
    }
    return real(v);
}
inline real nexttoward(real const& x, long double to) { return nexttoward(x, real(to)); }

}
#ifdef SYM_REAL_IS_FLOATING_POINT
namespace std
{
inline sym::real nextafter(sym::real const& x, sym::real const& y) { return sym::nexttoward(x, y); }
}
#endif
namespace sym
{
// ---- stream tokens ---------------------------------------------------------------------------

inline std::ostream& operator<<(std::ostream& out, real const& a)
{
    engine& g = E();
    token t;
    t.kind = a.k;
    t.ast_index = static_cast<unsigned>(g.token_exprs.size());
    auto const ff = out.flags() & std::ios_base::floatfield;
    t.scientific = ff == std::ios_base::scientific;
    t.precision = static_cast<int>(out.precision());
    int const md10 = SYM_MAX_DIGITS10;
    // scientific: 1 + precision significant digits; default (general) format: precision significant digits; hexfloat: exact
    t.lossless = (t.scientific && t.precision >= md10 - 1) || (ff == 0 && t.precision >= md10) ||
        (ff == (std::ios_base::scientific | std::ios_base::fixed));
    g.token_exprs.push_back(a.k == FIN ? a.e : real(0).e);
    g.tokens.push_back(t);
    out << '@' << (g.tokens.size() - 1);
    return out;
}

inline std::istream& operator>>(std::istream& in, real& a)
{
    engine& g = E();
    std::string w;
    if (!(in >> w))
    {
        return in;
    }
    if (!w.empty() && w[0] == '@')
    {
        std::size_t used = 0;
        unsigned long id = 0;
        try { id = std::stoul(w.substr(1), &used); } catch (...) { used = 0; }
        if (used == 0 || used + 1 != w.size() || id >= g.tokens.size())
        {
            in.setstate(std::ios_base::failbit);
            return in;
        }
        token const& t = g.tokens[id];
        if (t.kind != FIN)
        {
            // libstdc++'s num_get does not parse "inf"/"nan": extraction fails
            in.setstate(std::ios_base::failbit);
            return in;
        }
        a = real(g.token_exprs[t.ast_index]);
        return in;
    }
    // a literal number in harness-provided text
    try
    {
        std::size_t used = 0;
        double v = std::stod(w, &used);
        if (used != w.size()) { in.setstate(std::ios_base::failbit); return in; }
        a = real(v);
    }
    catch (...)
    {
        in.setstate(std::ios_base::failbit);
    }
    return in;
}

// ---- stub random engine ------------------------------------------------------------------------
// position-counting engine; the canonical numbers it "produces" are the symbolic u_k (sym mode) or
// replay values (concrete mode).  Serialises as its position.

struct stub_engine
{
    using result_type = std::uint32_t;
    std::uint64_t position = 0;

    static constexpr result_type min() { return 0; }
    static constexpr result_type max() { return 0xffffffffu; }
    result_type operator()() { ++position; return 0; }
    void discard(unsigned long long n) { position += n; }
    bool operator==(stub_engine const& o) const { return position == o.position; }
};

inline std::ostream& operator<<(std::ostream& out, stub_engine const& g)
{
    return out << g.position;
}
inline std::istream& operator>>(std::istream& in, stub_engine& g)
{
    return in >> g.position;
}

// table of canonical numbers shared by both modes: u(position)
template <typename T>
struct canon_table
{
    static std::map<std::uint64_t, T>& table()
    {
        static std::map<std::uint64_t, T> t;
        return t;
    }
    static std::vector<std::uint64_t>& draws()
    {
        static std::vector<std::uint64_t> d;
        return d;
    }
    // allow u == 1 (float generate_canonical bug) if set
    static bool& closed() { static bool c = false; return c; }
};

}

namespace std
{

template <>
class numeric_limits<sym::real>
{
public:
    static constexpr bool is_specialized = true;
    static constexpr int digits = SYM_DIGITS;
    static constexpr int digits10 = SYM_DIGITS10;
    static constexpr int max_digits10 = SYM_MAX_DIGITS10;
    static constexpr bool is_signed = true;
    static constexpr bool is_integer = false;
    static constexpr bool is_exact = true;
    static constexpr int radix = 2;
    static constexpr bool has_infinity = true;
    static constexpr bool has_quiet_NaN = true;
    static sym::real infinity() { return sym::real::special(sym::PINF); }
    static sym::real quiet_NaN() { return sym::real::special(sym::NANK); }
    // mirror double, so that code comparing against these constants keeps its meaning
    static sym::real epsilon() { return sym::real(std::numeric_limits<SYM_NATIVE>::epsilon()); }
    static sym::real min() { return sym::real(std::numeric_limits<double>::min()); }
    static sym::real max() { return sym::real(std::numeric_limits<double>::max()); }
    static sym::real lowest() { return sym::real(std::numeric_limits<double>::lowest()); }
};

// one canonical number costs exactly one raw draw of the stub engine (random_number_usage<real,
// stub_engine> evaluates to 2 for 53 bits / 32 bit engine; we model the engine position in units of
// raw draws, so advance by that amount)
template <>
inline sym::real generate_canonical<sym::real, SYM_DIGITS, sym::stub_engine>(sym::stub_engine& g)
{
    sym::engine& e = sym::E();
    std::uint64_t const p = g.position;
    g.position += SYM_RAW_PER_CANONICAL;
    sym::canon_table<sym::real>::draws().push_back(p);
    auto& tab = sym::canon_table<sym::real>::table();
    auto it = tab.find(p);
    if (it != tab.end())
    {
        return it->second;
    }
    z3::expr u = e.input("u" + std::to_string(p));
    e.define(u >= sym::real(0).e);
    if (sym::canon_table<sym::real>::closed()) e.define(u <= sym::real(1).e); else e.define(u < sym::real(1).e);
    sym::real r(u);
    tab.emplace(p, r);
    return r;
}

}

#endif
