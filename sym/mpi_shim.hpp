// mpi_shim.hpp - scheduler behind sym/mpi_stub/mpi.h: P ranks as coroutines, deterministic round robin
#ifndef VERIF_MPI_SHIM_HPP
#define VERIF_MPI_SHIM_HPP

#include "harness.hpp"

#include <mpi.h>

#include <exception>
#include <functional>
#include <sys/mman.h>
#include <ucontext.h>

namespace mpishim
{

struct collective
{
    int count;
    int datatype;
    void* buf;
};

struct rank_state
{
    ucontext_t ctx;
    void* stack = nullptr;
    bool done = false;
    bool waiting = false;
    collective pending;
    std::vector<std::pair<int, int>> log;   // (count, datatype) of every collective entered
    std::exception_ptr error;
    bool assertion_failed = false;
    bool aborted = false;
    sym::abort_path abort_reason;
    std::function<void()> body;
};

struct world_state
{
    int size = 1;
    int current = -1;          // rank that is running (-1: the scheduler)
    std::vector<rank_state> ranks;
    ucontext_t main_ctx;
    bool hang = false;         // some rank finished while another waits in a collective
    bool mismatch = false;     // ranks entered a collective with different count / datatype
    std::size_t collectives = 0;
    std::string problem;
};

inline world_state& W() { static world_state w; return w; }

template <typename T> struct adder
{
    static void add(void* a, void const* b, int n)
    {
        T* x = static_cast<T*>(a);
        T const* y = static_cast<T const*>(b);
        for (int i = 0; i != n; ++i) x[i] = x[i] + y[i];
    }
    static void copy(void* a, void const* b, int n)
    {
        T* x = static_cast<T*>(a);
        T const* y = static_cast<T const*>(b);
        for (int i = 0; i != n; ++i) x[i] = y[i];
    }
};

template <typename NumericT>
inline void reduce_all()
{
    world_state& w = W();
    collective const& c0 = w.ranks[0].pending;
    for (int r = 1; r < w.size; ++r)
    {
        collective const& c = w.ranks[r].pending;
        if (c.count != c0.count || c.datatype != c0.datatype)
        {
            w.mismatch = true;
            w.problem = "ranks entered a collective with different count or datatype";
            return;
        }
    }
    auto apply = [&](auto tag) {
        using E = decltype(tag);
        // sum in rank order into rank 0's buffer, then broadcast
        for (int r = 1; r < w.size; ++r) adder<E>::add(c0.buf, w.ranks[r].pending.buf, c0.count);
        for (int r = 1; r < w.size; ++r) adder<E>::copy(w.ranks[r].pending.buf, c0.buf, c0.count);
    };
    switch (c0.datatype)
    {
    case MPI_UNSIGNED: apply(unsigned()); break;
    case MPI_UNSIGNED_LONG: apply(static_cast<unsigned long>(0)); break;
    case MPI_UNSIGNED_LONG_LONG: apply(static_cast<unsigned long long>(0)); break;
    case MPI_FLOAT: apply(float()); break;
    case MPI_DOUBLE: apply(double()); break;
    case MPI_LONG_DOUBLE: apply(static_cast<long double>(0)); break;
    case MPI_SYM_REAL: apply(NumericT()); break;
    default: w.mismatch = true; w.problem = "unknown datatype"; break;
    }
    ++w.collectives;
}

// an assertion failed on a rank's stack: abandon that rank and report in the scheduler's context
inline void escape_from_rank()
{
    world_state& w = W();
    if (w.current < 0) return;
    rank_state& st = w.ranks[w.current];
    st.assertion_failed = true;
    st.done = true;
    w.current = -1;
    swapcontext(&st.ctx, &w.main_ctx);
}

inline void trampoline(int r)
{
    world_state& w = W();
    rank_state& st = w.ranks[r];
    try { st.body(); }
    catch (sym::abort_path const& ap) { st.aborted = true; st.abort_reason = ap; }
    catch (...) { st.error = std::current_exception(); }
    st.done = true;
    w.current = -1;
    swapcontext(&st.ctx, &w.main_ctx);
}

// runs `body(rank)` on P ranks; returns when all ranks finished (or a hang / mismatch was detected)
template <typename NumericT>
inline void run(int P, std::function<void(int)> body)
{
    world_state& w = W();
    w = world_state();
    sym::trap::escape() = escape_from_rank;
    w.size = P;
    w.ranks.resize(P);
    for (int r = 0; r < P; ++r)
    {
        rank_state& st = w.ranks[r];
        // the solver runs on the rank's stack: large, lazily committed, allocated once per rank index
        static std::vector<void*> pool;
        std::size_t const stack_size = std::size_t(512) << 20;
        while (pool.size() <= static_cast<std::size_t>(r))
        {
            void* p = mmap(nullptr, stack_size, PROT_READ | PROT_WRITE, MAP_PRIVATE | MAP_ANONYMOUS | MAP_NORESERVE | MAP_STACK, -1, 0);
            if (p == MAP_FAILED) throw std::runtime_error("mmap of coroutine stack failed");
            pool.push_back(p);
        }
        st.stack = pool[r];
        st.body = [body, r]() { body(r); };
        getcontext(&st.ctx);
        st.ctx.uc_stack.ss_sp = st.stack;
        st.ctx.uc_stack.ss_size = stack_size;
        st.ctx.uc_link = nullptr;
        makecontext(&st.ctx, reinterpret_cast<void (*)()>(trampoline), 1, r);
    }
    while (true)
    {
        bool all_done = true, any_done = false, all_waiting = true;
        for (int r = 0; r < P; ++r)
        {
            rank_state& st = w.ranks[r];
            if (st.done) { any_done = true; continue; }
            if (!st.waiting)
            {
                w.current = r;
                swapcontext(&w.main_ctx, &st.ctx);
                w.current = -1;
                // an abandoned symbolic path, an exception or a failed assertion in one rank ends the
                // whole world at once (no other rank may touch the engine afterwards)
                if (st.assertion_failed)
                {
                    sym::trap::escape() = nullptr;
                    std::longjmp(sym::trap::buf(), 1);
                }
                if (st.aborted) throw st.abort_reason;
                if (st.error) std::rethrow_exception(st.error);
            }
            if (st.done) { any_done = true; }
        }
        for (int r = 0; r < P; ++r)
        {
            if (!w.ranks[r].done) all_done = false;
            if (!w.ranks[r].done && !w.ranks[r].waiting) all_waiting = false;
        }
        // an abort of the symbolic path or an exception in one rank ends the whole world
        for (int r = 0; r < P; ++r)
        {
            if (w.ranks[r].assertion_failed)
            {
                // continue in the scheduler's context exactly like an assertion failure outside the shim
                sym::trap::escape() = nullptr;
                std::longjmp(sym::trap::buf(), 1);
            }
            if (w.ranks[r].aborted) throw w.ranks[r].abort_reason;
            if (w.ranks[r].error) std::rethrow_exception(w.ranks[r].error);
        }
        if (all_done) return;
        bool some_waiting = false, some_done = false;
        for (int r = 0; r < P; ++r) { some_waiting = some_waiting || (!w.ranks[r].done && w.ranks[r].waiting); some_done = some_done || w.ranks[r].done; }
        if (some_waiting && some_done)
        {
            w.hang = true;
            w.problem = "a rank returned while another rank waits in a collective";
            return;
        }
        if (all_waiting && some_waiting)
        {
            reduce_all<NumericT>();
            if (w.mismatch) return;
            for (int r = 0; r < P; ++r) w.ranks[r].waiting = false;
        }
        (void) any_done;
    }
}

}

inline int MPI_Comm_rank(MPI_Comm, int* rank) { *rank = mpishim::W().current < 0 ? 0 : mpishim::W().current; return MPI_SUCCESS; }
inline int MPI_Comm_size(MPI_Comm, int* size) { *size = mpishim::W().size; return MPI_SUCCESS; }
inline int MPI_Allreduce(void const* sendbuf, void* recvbuf, int count, MPI_Datatype datatype, MPI_Op, MPI_Comm)
{
    mpishim::world_state& w = mpishim::W();
    (void) sendbuf;   // hep-mc always uses MPI_IN_PLACE
    int const r = w.current;
    mpishim::rank_state& st = w.ranks[r];
    st.pending = mpishim::collective{count, datatype, recvbuf};
    st.log.push_back(std::make_pair(count, datatype));
    st.waiting = true;
    w.current = -1;
    swapcontext(&st.ctx, &w.main_ctx);
    return MPI_SUCCESS;
}

#endif
