"""route_i.py - Route I jobs: LLVM IR of extern-C wrappers around the real functions, translated
(a) to SMT-LIB2 (loop-free integer kernels; own translator ir/ir2smt.py) and decided by z3 / cvc5, or
(b) to C (ir/ir2c.py) and decided by CBMC with unwinding assertions.
Every job regenerates the IR from /repo's current headers.
"""
import concurrent.futures as cf
import json
import os
import re
import subprocess
import sys
import time

HERE = os.path.dirname(os.path.abspath(__file__))
sys.path.insert(0, os.path.join(HERE, "ir"))
import ir2smt  # noqa: E402

CLANG = "clang++-14"
CLANG_FLAGS = ["-std=c++11", "-O1", "-ffp-contract=off", "-fno-vectorize", "-fno-slp-vectorize", "-fno-unroll-loops",
               "-fno-exceptions", "-S", "-emit-llvm"]


def sh(cmd, timeout=None, inp=None):
    try:
        r = subprocess.run(cmd, input=inp, stdout=subprocess.PIPE, stderr=subprocess.STDOUT, text=True, timeout=timeout)
        return r.returncode, r.stdout
    except subprocess.TimeoutExpired:
        return -9, "timeout"


def emit_ir(wrapper, repo, workdir, extra=()):
    os.makedirs(workdir, exist_ok=True)
    ll = os.path.join(workdir, os.path.basename(wrapper).replace(".cpp", ".ll"))
    rc, out = sh([CLANG] + CLANG_FLAGS + list(extra) + ["-I" + os.path.join(repo, "include"), wrapper, "-o", ll])
    if rc != 0:
        return None, out
    return ll, ""


SOLVERS = [
    ("z3-4.8.12", ["z3", "-smt2", "-in"]),
    ("z3-5.1.0", ["z3-new", "-smt2", "-in"]),
    ("cvc5-1.0.3", ["cvc5", "--lang=smt2"]),
    ("cvc5-bv-as-int", ["cvc5", "--lang=smt2", "--solve-bv-as-int=sum"]),
]


def solve(script, cap, want_model=False):
    """runs all solvers in parallel under a cap; the first definite answer (sat/unsat, no '(error') wins;
    a disagreement between definite answers makes the result inconclusive"""
    answers = {}
    t0 = time.time()

    def one(s):
        name, cmd = s
        if name == "cvc5-bv-as-int" and "BitVec" not in script:
            return name, "skip", "", 0.0
        t = time.time()
        rc, out = sh(cmd, timeout=cap, inp=script)
        dt = time.time() - t
        if "(error" in out:
            return name, "error", out, dt
        first = out.strip().split("\n")[0].strip() if out.strip() else ""
        if first in ("sat", "unsat"):
            return name, first, out, dt
        return name, "unknown", out, dt

    with cf.ThreadPoolExecutor(max_workers=len(SOLVERS)) as ex:
        for name, ans, out, dt in ex.map(one, SOLVERS):
            answers[name] = (ans, out, dt)
    definite = {n: a for n, (a, _, _) in answers.items() if a in ("sat", "unsat")}
    verdict = "unknown"
    if definite:
        vals = set(definite.values())
        verdict = vals.pop() if len(vals) == 1 else "disagree"
    return verdict, answers, time.time() - t0


# ---- expression builder for obligations (both encodings from one description) ---------------------
class B:
    def __init__(self, mode, width=64):
        self.mode, self.w = mode, width

    def sort(self):
        return "(_ BitVec %d)" % self.w if self.mode == "bv" else "Int"

    def c(self, v):
        return "(_ bv%d %d)" % (v % (1 << self.w), self.w) if self.mode == "bv" else str(v)

    def _wrap(self, e):
        return e if self.mode == "bv" else "(mod %s %d)" % (e, 1 << self.w)

    def add(self, a, b):
        return "(bvadd %s %s)" % (a, b) if self.mode == "bv" else self._wrap("(+ %s %s)" % (a, b))

    def sub(self, a, b):
        return "(bvsub %s %s)" % (a, b) if self.mode == "bv" else self._wrap("(- %s %s)" % (a, b))

    def mul(self, a, b):
        return "(bvmul %s %s)" % (a, b) if self.mode == "bv" else self._wrap("(* %s %s)" % (a, b))

    def udiv(self, a, b):
        return "(bvudiv %s %s)" % (a, b) if self.mode == "bv" else "(div %s %s)" % (a, b)

    def urem(self, a, b):
        return "(bvurem %s %s)" % (a, b) if self.mode == "bv" else "(mod %s %s)" % (a, b)

    def ult(self, a, b):
        return "(bvult %s %s)" % (a, b) if self.mode == "bv" else "(< %s %s)" % (a, b)

    def ule(self, a, b):
        return "(bvule %s %s)" % (a, b) if self.mode == "bv" else "(<= %s %s)" % (a, b)

    def eq(self, a, b):
        return "(= %s %s)" % (a, b)

    def ite(self, c, a, b):
        return "(ite %s %s %s)" % (c, a, b)

    def in_range(self, v):
        return "true" if self.mode == "bv" else "(and (<= 0 %s) (< %s %d))" % (v, v, 1 << self.w)


def split_obligations(b):
    """C16: obligations on discard_before / discard_after; t = total, r = rank, w = world"""
    t, r, w = "t", "r", "w"
    one, zero = b.c(1), b.c(0)
    q, rem = b.udiv(t, w), b.urem(t, w)
    before = lambda rr: "(w_discard_before %s %s %s)" % (t, rr, w)   # noqa: E731
    sub = lambda rr: b.add(q, b.ite(b.ult(rr, rem), one, zero))       # noqa: E731  documented share of rank rr
    after = lambda rr, calls: "(w_discard_after %s %s %s %s)" % (t, calls, rr, w)   # noqa: E731
    r1 = b.add(r, one)
    pre = "(and %s %s %s %s %s)" % (b.in_range(t), b.in_range(r), b.in_range(w), b.ult(zero, w), b.ult(r, w))
    obs = [
        ("first_rank_starts_at_zero", b.eq("(w_discard_before %s %s %s)" % (t, zero, w), zero)),
        ("shares_are_contiguous", "(=> %s %s)" % (b.ult(r1, w), b.eq(b.add(before(r), sub(r)), before(r1)))),
        ("last_share_ends_at_total", "(=> %s %s)" % (b.eq(r1, w), b.eq(b.add(before(r), sub(r)), t))),
        ("share_ends_within_total", "(and %s %s)" % (b.ule(before(r), t), b.ule(sub(r), b.sub(t, before(r))))),
        ("shares_differ_by_at_most_one_and_do_not_increase",
         "(and (or %s %s) (=> %s %s))" % (b.eq(sub(r), q), b.eq(sub(r), b.add(q, one)), b.ult(r1, w), b.ule(sub(r1), sub(r)))),
        ("after_is_total_minus_before_minus_share", b.eq(after(r, sub(r)), b.sub(b.sub(t, before(r)), sub(r)))),
        ("every_rank_ends_at_the_same_position", b.eq(b.add(b.add(before(r), sub(r)), after(r, sub(r))), t)),
    ]
    decls = "".join("(declare-const %s %s)\n" % (v, b.sort()) for v in (t, r, w))
    return decls, pre, obs


REPLAY_SPLIT = r'''
#include "hep/mc/generator_helper.hpp"
#include <cstdio>
#include <cstdlib>
int main(int argc, char** argv) {
    unsigned long t = std::strtoul(argv[1], 0, 10), r = std::strtoul(argv[2], 0, 10), w = std::strtoul(argv[3], 0, 10);
    unsigned long q = t / w, rem = t % w;
    auto sub = [&](unsigned long rr) { return q + (rr < rem ? 1UL : 0UL); };
    unsigned long b = hep::discard_before(t, r, w), s = sub(r), a = hep::discard_after(t, s, r, w);
    int bad = 0;
    if (hep::discard_before(t, 0, w) != 0) { std::puts("first_rank_starts_at_zero"); bad = 1; }
    if (r + 1 < w && b + s != hep::discard_before(t, r + 1, w)) { std::puts("shares_are_contiguous"); bad = 1; }
    if (r + 1 == w && b + s != t) { std::puts("last_share_ends_at_total"); bad = 1; }
    if (!(b <= t && s <= t - b)) { std::puts("share_ends_within_total"); bad = 1; }
    if (!((s == q || s == q + 1) && (!(r + 1 < w) || sub(r + 1) <= s))) { std::puts("shares_differ_by_at_most_one_and_do_not_increase"); bad = 1; }
    if (a != t - b - s) { std::puts("after_is_total_minus_before_minus_share"); bad = 1; }
    if (b + s + a != t) { std::puts("every_rank_ends_at_the_same_position"); bad = 1; }
    std::printf("before=%lu share=%lu after=%lu\n", b, s, a);
    return bad;
}
'''

EVAL_SPLIT = r'''
#include "hep/mc/generator_helper.hpp"
#include <cstdio>
#include <cstdlib>
int main(int argc, char** argv) {
    for (int i = 1; i + 3 < argc + 1 && i + 3 <= argc; i += 4) {
        unsigned long t = std::strtoul(argv[i], 0, 10), c = std::strtoul(argv[i+1], 0, 10), r = std::strtoul(argv[i+2], 0, 10), w = std::strtoul(argv[i+3], 0, 10);
        std::printf("%lu %lu\n", hep::discard_before(t, r, w), hep::discard_after(t, c, r, w));
    }
    return 0;
}
'''


def job_split(job, tier, repo, workdir):
    """C16: work split helpers for all 64-bit totals / world sizes / ranks"""
    res = dict(checks={}, violations=[], inconclusive=[], samples=[], obligations=0, discharged=0, queries=0, solver_s=0.0,
               states=0, transitions=0, replays=0)
    wrapper = os.path.join(HERE, "harness_i", "w_split.cpp")
    ll, err = emit_ir(wrapper, repo, workdir)
    if ll is None:
        res["inconclusive"].append("clang failed: " + err[-400:])
        return res
    ll_text = open(ll).read()
    cap = job.get("cap", 60 if tier == "quick" else 600)
    width_note = job.get("assume", "")
    # translator validation: SMT definitions evaluated on concrete vectors vs the g++ build of the real functions
    vectors = [(10, 3, 1, 4), (1000, 334, 2, 3), (0, 0, 0, 1), (7, 1, 6, 7), (2 ** 64 - 1, 5, 2 ** 31 - 2, 2 ** 31 - 1),
               (2 ** 63 + 12345, 2 ** 40, 7, 2 ** 20 + 3), (5, 0, 4, 9), (12, 4, 0, 3)]
    exe = os.path.join(workdir, "eval_split")
    open(exe + ".cpp", "w").write(EVAL_SPLIT)
    rc, out = sh(["g++", "-std=c++11", "-O1", "-I" + os.path.join(repo, "include"), exe + ".cpp", "-o", exe])
    if rc != 0:
        res["inconclusive"].append("g++ failed: " + out[-300:])
        return res
    rc, real = sh([exe] + [str(x) for v in vectors for x in v])
    real_vals = [tuple(int(x) for x in line.split()) for line in real.strip().split("\n")]
    for mode in ("bv", "int"):
        try:
            defs, _ = ir2smt.ir_to_smt(ll_text, ["w_discard_before", "w_discard_after"], mode)
        except ir2smt.Unsupported as ex:
            if mode == "bv":
                res["inconclusive"].append("IR not translatable (%s): %s" % (mode, ex))
                return res
            continue
        b = B(mode)
        script = defs + "\n"
        for (t, c, r, w) in vectors:
            script += "(simplify (w_discard_before %s %s %s))\n(simplify (w_discard_after %s %s %s %s))\n" % (
                b.c(t), b.c(r), b.c(w), b.c(t), b.c(c), b.c(r), b.c(w))
        rc, out = sh(["z3", "-smt2", "-in"], inp=script, timeout=60)
        got = []
        for line in out.strip().split("\n"):
            line = line.strip()
            m = re.match(r"^#x([0-9a-fA-F]+)$", line)
            if m:
                got.append(int(m.group(1), 16))
            elif re.match(r"^\d+$", line):
                got.append(int(line))
            else:
                m = re.match(r"^\(_ bv(\d+) \d+\)$", line)
                if m:
                    got.append(int(m.group(1)))
        pairs = [(got[2 * i], got[2 * i + 1]) for i in range(len(got) // 2)]
        res["replays"] += len(pairs)
        if pairs != real_vals:
            res["inconclusive"].append("translator validation failed (%s): smt %s vs real %s" % (mode, pairs, real_vals))
            return res
    res["samples"].append({"translator_validation": "8 vectors x 2 functions x 2 encodings equal to the g++ build",
                           "vectors": [list(map(str, v)) for v in vectors[:3]]})

    names = None
    tasks = []
    for mode in ("bv", "int"):
        try:
            defs, _ = ir2smt.ir_to_smt(ll_text, ["w_discard_before", "w_discard_after"], mode)
        except ir2smt.Unsupported as ex:
            res["samples"].append({"encoding": mode, "skipped": "IR not translatable in this encoding: %s" % ex})
            continue
        b = B(mode)
        decls, pre, obs = split_obligations(b)
        if job.get("world_is_int", False):
            pre = "(and %s %s)" % (pre, b.ult("w", b.c(2 ** 31)))
        names = [n for n, _ in obs]
        for name, formula in obs:
            script = ("(set-logic ALL)\n(set-option :produce-models true)\n" + defs + "\n" + decls +
                      "(assert %s)\n(assert (not %s))\n(check-sat)\n" % (pre, formula))
            tasks.append((mode, name, script))

    def work(task):
        mode, name, script = task
        verdict, answers, dt = solve(script, cap)
        if verdict == "sat":
            verdict2, answers2, _ = solve(script + "(get-value (t r w))\n", cap)
            if verdict2 == "sat":
                answers = answers2
        return mode, name, verdict, answers, dt

    with cf.ThreadPoolExecutor(max_workers=int(job.get("parallel", 5))) as ex:
        done = list(ex.map(work, tasks))
    built = set()
    for mode, name, verdict, answers, dt in done:
        key = "C16|split.%s" % name
        st = res["checks"].setdefault(key, dict(reached=0, discharged=0, violated=0, unknown=0))
        res["queries"] += len([a for a in answers.values() if a[0] != "skip"])
        res["solver_s"] += dt
        res["transitions"] += 1
        who = {n: a[0] + " %.1fs" % a[2] for n, a in answers.items() if a[0] != "skip"}
        res["samples"].append({"obligation": name, "encoding": mode, "verdict": verdict, "solvers": who})
        st.setdefault("by_encoding", {})[mode] = verdict
        if verdict == "sat":
            # counterexample: replay against the real functions
            out = [a[1] for a in answers.values() if a[0] == "sat"][0]
            vals = {}
            for var in ("t", "r", "w"):
                m = re.search(r"\(%s (?:#x([0-9a-fA-F]+)|(\d+)|\(_ bv(\d+) \d+\))\)" % var, out)
                if m:
                    vals[var] = int(m.group(1), 16) if m.group(1) else int(m.group(2) or m.group(3))
            rexe = os.path.join(workdir, "replay_split")
            if rexe not in built:
                # always rebuilt against the current tree
                open(rexe + ".cpp", "w").write(REPLAY_SPLIT)
                sh(["g++", "-std=c++11", "-O1", "-I" + os.path.join(repo, "include"), rexe + ".cpp", "-o", rexe])
                built.add(rexe)
            rc, rout = sh([rexe, str(vals.get("t", 0)), str(vals.get("r", 0)), str(vals.get("w", 1))])
            res["replays"] += 1
            confirmed = name in rout
            res["violations"].append({"check": key, "confirmed": confirmed, "inputs": {k: str(v) for k, v in vals.items()},
                                      "choices": [], "note": "encoding %s; real code says: %s" % (mode, rout.strip()[-200:]),
                                      "replay_cmd": "%s %s %s %s" % (rexe, vals.get("t"), vals.get("r"), vals.get("w"))})
    # an obligation is discharged if at least one encoding proves it (both encode the same machine semantics) and none refutes it
    for name in names or []:
        key = "C16|split.%s" % name
        st = res["checks"][key]
        enc = st.pop("by_encoding")
        st["reached"] = 1
        res["obligations"] += 1
        if "sat" in enc.values():
            st["violated"] = 1
        elif "disagree" in enc.values():
            st["unknown"] = 1
            res["inconclusive"].append("solvers disagree on %s" % name)
        elif "unsat" in enc.values():
            st["discharged"] = 1
            res["discharged"] += 1
        else:
            st["unknown"] = 1
            res["inconclusive"].append("no solver decided %s within %ds (%s)" % (name, cap, enc))
    res["states"] = len(names or [])
    res["note"] = width_note
    return res


KINDS = {"split": job_split}


def run_job(job, tier, idx, pid, repo):
    t0 = time.time()
    workdir = os.path.join(HERE, "out", pid, "ri_%03d" % idx)
    try:
        r = KINDS[job["kind"]](job, tier, repo, workdir)
    except Exception as ex:  # noqa: BLE001
        import traceback
        r = dict(inconclusive=["route I job crashed: %s\n%s" % (ex, traceback.format_exc()[-800:])])
    r["job"] = job
    r["wall"] = time.time() - t0
    return r
