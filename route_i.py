"""route_i.py - Route I jobs: LLVM IR of extern-C wrappers around the real functions, translated
(a) to SMT-LIB2 (loop-free integer kernels; own translator ir/ir2smt.py) and decided by z3 / cvc5, or
(b) to C (ir/ir2c.py) and decided by CBMC with unwinding assertions.
Every job regenerates the IR from /repo's current headers.
"""
import concurrent.futures as cf
import json
import os
import re
import subprocess
import sys
import time

HERE = os.path.dirname(os.path.abspath(__file__))
sys.path.insert(0, os.path.join(HERE, "ir"))
import ir2smt  # noqa: E402

CLANG = "clang++-14"
CLANG_FLAGS = ["-std=c++11", "-O1", "-ffp-contract=off", "-fno-vectorize", "-fno-slp-vectorize", "-fno-unroll-loops",
               "-fno-exceptions", "-S", "-emit-llvm"]


def sh(cmd, timeout=None, inp=None):
    try:
        r = subprocess.run(cmd, input=inp, stdout=subprocess.PIPE, stderr=subprocess.STDOUT, text=True, timeout=timeout)
        return r.returncode, r.stdout
    except subprocess.TimeoutExpired:
        return -9, "timeout"


def emit_ir(wrapper, repo, workdir, extra=(), exceptions=False):
    os.makedirs(workdir, exist_ok=True)
    ll = os.path.join(workdir, os.path.basename(wrapper).replace(".cpp", ".ll"))
    flags = [f for f in CLANG_FLAGS if not (exceptions and f == "-fno-exceptions")]
    rc, out = sh([CLANG] + flags + list(extra) + ["-I" + os.path.join(repo, "include"), wrapper, "-o", ll])
    if rc != 0:
        return None, out
    return ll, ""


SOLVERS = [
    ("z3-4.8.12", ["z3", "-smt2", "-in"]),
    ("z3-5.1.0", ["z3-new", "-smt2", "-in"]),
    ("cvc5-1.0.3", ["cvc5", "--lang=smt2"]),
    ("cvc5-bv-as-int", ["cvc5", "--lang=smt2", "--solve-bv-as-int=sum"]),
]


def solve(script, cap, want_model=False):
    """runs all solvers in parallel under a cap; the first definite answer (sat/unsat, no '(error') wins;
    a disagreement between definite answers makes the result inconclusive"""
    answers = {}
    t0 = time.time()

    def one(s):
        name, cmd = s
        if name == "cvc5-bv-as-int" and "BitVec" not in script:
            return name, "skip", "", 0.0
        t = time.time()
        rc, out = sh(cmd, timeout=cap, inp=script)
        dt = time.time() - t
        if "(error" in out:
            return name, "error", out, dt
        first = out.strip().split("\n")[0].strip() if out.strip() else ""
        if first in ("sat", "unsat"):
            return name, first, out, dt
        return name, "unknown", out, dt

    with cf.ThreadPoolExecutor(max_workers=len(SOLVERS)) as ex:
        for name, ans, out, dt in ex.map(one, SOLVERS):
            answers[name] = (ans, out, dt)
    definite = {n: a for n, (a, _, _) in answers.items() if a in ("sat", "unsat")}
    verdict = "unknown"
    if definite:
        vals = set(definite.values())
        verdict = vals.pop() if len(vals) == 1 else "disagree"
    return verdict, answers, time.time() - t0


# ---- expression builder for obligations (both encodings from one description) ---------------------
class B:
    def __init__(self, mode, width=64):
        self.mode, self.w = mode, width

    def sort(self):
        return "(_ BitVec %d)" % self.w if self.mode == "bv" else "Int"

    def c(self, v):
        return "(_ bv%d %d)" % (v % (1 << self.w), self.w) if self.mode == "bv" else str(v)

    def _wrap(self, e):
        return e if self.mode == "bv" else "(mod %s %d)" % (e, 1 << self.w)

    def add(self, a, b):
        return "(bvadd %s %s)" % (a, b) if self.mode == "bv" else self._wrap("(+ %s %s)" % (a, b))

    def sub(self, a, b):
        return "(bvsub %s %s)" % (a, b) if self.mode == "bv" else self._wrap("(- %s %s)" % (a, b))

    def mul(self, a, b):
        return "(bvmul %s %s)" % (a, b) if self.mode == "bv" else self._wrap("(* %s %s)" % (a, b))

    def udiv(self, a, b):
        return "(bvudiv %s %s)" % (a, b) if self.mode == "bv" else "(div %s %s)" % (a, b)

    def urem(self, a, b):
        return "(bvurem %s %s)" % (a, b) if self.mode == "bv" else "(mod %s %s)" % (a, b)

    def ult(self, a, b):
        return "(bvult %s %s)" % (a, b) if self.mode == "bv" else "(< %s %s)" % (a, b)

    def ule(self, a, b):
        return "(bvule %s %s)" % (a, b) if self.mode == "bv" else "(<= %s %s)" % (a, b)

    def eq(self, a, b):
        return "(= %s %s)" % (a, b)

    def ite(self, c, a, b):
        return "(ite %s %s %s)" % (c, a, b)

    def in_range(self, v):
        return "true" if self.mode == "bv" else "(and (<= 0 %s) (< %s %d))" % (v, v, 1 << self.w)


def split_obligations(b):
    """C16: obligations on discard_before / discard_after; t = total, r = rank, w = world"""
    t, r, w = "t", "r", "w"
    one, zero = b.c(1), b.c(0)
    q, rem = b.udiv(t, w), b.urem(t, w)
    before = lambda rr: "(w_discard_before %s %s %s)" % (t, rr, w)   # noqa: E731
    sub = lambda rr: b.add(q, b.ite(b.ult(rr, rem), one, zero))       # noqa: E731  documented share of rank rr
    after = lambda rr, calls: "(w_discard_after %s %s %s %s)" % (t, calls, rr, w)   # noqa: E731
    r1 = b.add(r, one)
    pre = "(and %s %s %s %s %s)" % (b.in_range(t), b.in_range(r), b.in_range(w), b.ult(zero, w), b.ult(r, w))
    obs = [
        ("first_rank_starts_at_zero", b.eq("(w_discard_before %s %s %s)" % (t, zero, w), zero)),
        ("shares_are_contiguous", "(=> %s %s)" % (b.ult(r1, w), b.eq(b.add(before(r), sub(r)), before(r1)))),
        ("last_share_ends_at_total", "(=> %s %s)" % (b.eq(r1, w), b.eq(b.add(before(r), sub(r)), t))),
        ("share_ends_within_total", "(and %s %s)" % (b.ule(before(r), t), b.ule(sub(r), b.sub(t, before(r))))),
        ("shares_differ_by_at_most_one_and_do_not_increase",
         "(and (or %s %s) (=> %s %s))" % (b.eq(sub(r), q), b.eq(sub(r), b.add(q, one)), b.ult(r1, w), b.ule(sub(r1), sub(r)))),
        ("after_is_total_minus_before_minus_share", b.eq(after(r, sub(r)), b.sub(b.sub(t, before(r)), sub(r)))),
        ("every_rank_ends_at_the_same_position", b.eq(b.add(b.add(before(r), sub(r)), after(r, sub(r))), t)),
    ]
    decls = "".join("(declare-const %s %s)\n" % (v, b.sort()) for v in (t, r, w))
    return decls, pre, obs


REPLAY_SPLIT = r'''
#include "hep/mc/generator_helper.hpp"
#include <cstdio>
#include <cstdlib>
int main(int argc, char** argv) {
    unsigned long t = std::strtoul(argv[1], 0, 10), r = std::strtoul(argv[2], 0, 10), w = std::strtoul(argv[3], 0, 10);
    unsigned long q = t / w, rem = t % w;
    auto sub = [&](unsigned long rr) { return q + (rr < rem ? 1UL : 0UL); };
    unsigned long b = hep::discard_before(t, r, w), s = sub(r), a = hep::discard_after(t, s, r, w);
    int bad = 0;
    if (hep::discard_before(t, 0, w) != 0) { std::puts("first_rank_starts_at_zero"); bad = 1; }
    if (r + 1 < w && b + s != hep::discard_before(t, r + 1, w)) { std::puts("shares_are_contiguous"); bad = 1; }
    if (r + 1 == w && b + s != t) { std::puts("last_share_ends_at_total"); bad = 1; }
    if (!(b <= t && s <= t - b)) { std::puts("share_ends_within_total"); bad = 1; }
    if (!((s == q || s == q + 1) && (!(r + 1 < w) || sub(r + 1) <= s))) { std::puts("shares_differ_by_at_most_one_and_do_not_increase"); bad = 1; }
    if (a != t - b - s) { std::puts("after_is_total_minus_before_minus_share"); bad = 1; }
    if (b + s + a != t) { std::puts("every_rank_ends_at_the_same_position"); bad = 1; }
    std::printf("before=%lu share=%lu after=%lu\n", b, s, a);
    return bad;
}
'''

EVAL_SPLIT = r'''
#include "hep/mc/generator_helper.hpp"
#include <cstdio>
#include <cstdlib>
int main(int argc, char** argv) {
    for (int i = 1; i + 3 < argc + 1 && i + 3 <= argc; i += 4) {
        unsigned long t = std::strtoul(argv[i], 0, 10), c = std::strtoul(argv[i+1], 0, 10), r = std::strtoul(argv[i+2], 0, 10), w = std::strtoul(argv[i+3], 0, 10);
        std::printf("%lu %lu\n", hep::discard_before(t, r, w), hep::discard_after(t, c, r, w));
    }
    return 0;
}
'''


def job_split(job, tier, repo, workdir):
    """C16: work split helpers for all 64-bit totals / world sizes / ranks"""
    res = dict(checks={}, violations=[], inconclusive=[], samples=[], obligations=0, discharged=0, queries=0, solver_s=0.0,
               states=0, transitions=0, replays=0)
    wrapper = os.path.join(HERE, "harness_i", "w_split.cpp")
    ll, err = emit_ir(wrapper, repo, workdir)
    if ll is None:
        res["inconclusive"].append("clang failed: " + err[-400:])
        return res
    ll_text = open(ll).read()
    cap = job.get("cap", 60 if tier == "quick" else 600)
    width_note = job.get("assume", "")
    # translator validation: SMT definitions evaluated on concrete vectors vs the g++ build of the real functions
    vectors = [(10, 3, 1, 4), (1000, 334, 2, 3), (0, 0, 0, 1), (7, 1, 6, 7), (2 ** 64 - 1, 5, 2 ** 31 - 2, 2 ** 31 - 1),
               (2 ** 63 + 12345, 2 ** 40, 7, 2 ** 20 + 3), (5, 0, 4, 9), (12, 4, 0, 3)]
    exe = os.path.join(workdir, "eval_split")
    open(exe + ".cpp", "w").write(EVAL_SPLIT)
    rc, out = sh(["g++", "-std=c++11", "-O1", "-I" + os.path.join(repo, "include"), exe + ".cpp", "-o", exe])
    if rc != 0:
        res["inconclusive"].append("g++ failed: " + out[-300:])
        return res
    rc, real = sh([exe] + [str(x) for v in vectors for x in v])
    real_vals = [tuple(int(x) for x in line.split()) for line in real.strip().split("\n")]
    for mode in ("bv", "int"):
        try:
            defs, _ = ir2smt.ir_to_smt(ll_text, ["w_discard_before", "w_discard_after"], mode)
        except ir2smt.Unsupported as ex:
            if mode == "bv":
                res["inconclusive"].append("IR not translatable (%s): %s" % (mode, ex))
                return res
            continue
        b = B(mode)
        script = defs + "\n"
        for (t, c, r, w) in vectors:
            script += "(simplify (w_discard_before %s %s %s))\n(simplify (w_discard_after %s %s %s %s))\n" % (
                b.c(t), b.c(r), b.c(w), b.c(t), b.c(c), b.c(r), b.c(w))
        rc, out = sh(["z3", "-smt2", "-in"], inp=script, timeout=60)
        got = []
        for line in out.strip().split("\n"):
            line = line.strip()
            m = re.match(r"^#x([0-9a-fA-F]+)$", line)
            if m:
                got.append(int(m.group(1), 16))
            elif re.match(r"^\d+$", line):
                got.append(int(line))
            else:
                m = re.match(r"^\(_ bv(\d+) \d+\)$", line)
                if m:
                    got.append(int(m.group(1)))
        pairs = [(got[2 * i], got[2 * i + 1]) for i in range(len(got) // 2)]
        res["replays"] += len(pairs)
        if pairs != real_vals:
            res["inconclusive"].append("translator validation failed (%s): smt %s vs real %s" % (mode, pairs, real_vals))
            return res
    res["samples"].append({"translator_validation": "8 vectors x 2 functions x 2 encodings equal to the g++ build",
                           "vectors": [list(map(str, v)) for v in vectors[:3]]})

    names = None
    tasks = []
    for mode in ("bv", "int"):
        try:
            defs, _ = ir2smt.ir_to_smt(ll_text, ["w_discard_before", "w_discard_after"], mode)
        except ir2smt.Unsupported as ex:
            res["samples"].append({"encoding": mode, "skipped": "IR not translatable in this encoding: %s" % ex})
            continue
        b = B(mode)
        decls, pre, obs = split_obligations(b)
        if job.get("world_is_int", False):
            pre = "(and %s %s)" % (pre, b.ult("w", b.c(2 ** 31)))
        names = [n for n, _ in obs]
        for name, formula in obs:
            script = ("(set-logic ALL)\n(set-option :produce-models true)\n" + defs + "\n" + decls +
                      "(assert %s)\n(assert (not %s))\n(check-sat)\n" % (pre, formula))
            tasks.append((mode, name, script))

    def work(task):
        mode, name, script = task
        verdict, answers, dt = solve(script, cap)
        if verdict == "sat":
            verdict2, answers2, _ = solve(script + "(get-value (t r w))\n", cap)
            if verdict2 == "sat":
                answers = answers2
        return mode, name, verdict, answers, dt

    with cf.ThreadPoolExecutor(max_workers=int(job.get("parallel", 5))) as ex:
        done = list(ex.map(work, tasks))
    built = set()
    for mode, name, verdict, answers, dt in done:
        key = "C16|split.%s" % name
        st = res["checks"].setdefault(key, dict(reached=0, discharged=0, violated=0, unknown=0))
        res["queries"] += len([a for a in answers.values() if a[0] != "skip"])
        res["solver_s"] += dt
        res["transitions"] += 1
        who = {n: a[0] + " %.1fs" % a[2] for n, a in answers.items() if a[0] != "skip"}
        res["samples"].append({"obligation": name, "encoding": mode, "verdict": verdict, "solvers": who})
        st.setdefault("by_encoding", {})[mode] = verdict
        if verdict == "sat":
            # counterexample: replay against the real functions
            out = [a[1] for a in answers.values() if a[0] == "sat"][0]
            vals = {}
            for var in ("t", "r", "w"):
                m = re.search(r"\(%s (?:#x([0-9a-fA-F]+)|(\d+)|\(_ bv(\d+) \d+\))\)" % var, out)
                if m:
                    vals[var] = int(m.group(1), 16) if m.group(1) else int(m.group(2) or m.group(3))
            rexe = os.path.join(workdir, "replay_split")
            if rexe not in built:
                # always rebuilt against the current tree
                open(rexe + ".cpp", "w").write(REPLAY_SPLIT)
                sh(["g++", "-std=c++11", "-O1", "-I" + os.path.join(repo, "include"), rexe + ".cpp", "-o", rexe])
                built.add(rexe)
            rc, rout = sh([rexe, str(vals.get("t", 0)), str(vals.get("r", 0)), str(vals.get("w", 1))])
            res["replays"] += 1
            confirmed = name in rout
            res["violations"].append({"check": key, "confirmed": confirmed, "inputs": {k: str(v) for k, v in vals.items()},
                                      "choices": [], "note": "encoding %s; real code says: %s" % (mode, rout.strip()[-200:]),
                                      "replay_cmd": "%s %s %s %s" % (rexe, vals.get("t"), vals.get("r"), vals.get("w"))})
    # an obligation is discharged if at least one encoding proves it (both encode the same machine semantics) and none refutes it
    for name in names or []:
        key = "C16|split.%s" % name
        st = res["checks"][key]
        enc = st.pop("by_encoding")
        st["reached"] = 1
        res["obligations"] += 1
        if "sat" in enc.values():
            st["violated"] = 1
        elif "disagree" in enc.values():
            st["unknown"] = 1
            res["inconclusive"].append("solvers disagree on %s" % name)
        elif "unsat" in enc.values():
            st["discharged"] = 1
            res["discharged"] += 1
        else:
            st["unknown"] = 1
            res["inconclusive"].append("no solver decided %s within %ds (%s)" % (name, cap, enc))
    res["states"] = len(names or [])
    res["note"] = width_note
    return res



# ---- C16: the per-rank share expression sliced out of the drivers' IR ---------------------------------------
REPLAY_SHARE = r"""
#include <mpi.h>
#include <cstdio>
#include <cstdlib>
#include <istream>
#include <ostream>
static int g_rank = 0, g_world = 1;
int MPI_Comm_rank(MPI_Comm, int* r) { *r = g_rank; return 0; }
int MPI_Comm_size(MPI_Comm, int* s) { *s = g_world; return 0; }
int MPI_Allreduce(void const*, void*, int, MPI_Datatype, MPI_Op, MPI_Comm) { return 0; }
#include "hep/mc/multi_channel_integrand.hpp"
#include "hep/mc/mpi_multi_channel.hpp"
#include "hep/mc/mpi_plain.hpp"
#include "hep/mc/mpi_vegas.hpp"
static unsigned long g_count = 0;
struct fast_engine { using result_type = unsigned; static constexpr unsigned min() { return 0; } static constexpr unsigned max() { return 0xffffffffu; }
    unsigned operator()() { return 12345u; } void discard(unsigned long long) {} };
inline std::ostream& operator<<(std::ostream& o, fast_engine const&) { return o << 0; }
inline std::istream& operator>>(std::istream& i, fast_engine&) { int x; return i >> x; }
struct fn { double operator()(hep::mc_point<double> const&) const { ++g_count; return 0.0; } };
struct mp { double operator()(std::size_t, std::vector<double> const&, std::vector<double>&, std::vector<std::size_t> const&,
    std::vector<double>&, hep::multi_channel_map) const { return 1.0; } };
template <typename C> struct quiet { bool operator()(MPI_Comm, C const&) const { return false; } };
int main(int argc, char** argv) {
    int which = std::atoi(argv[1]); unsigned long calls = std::strtoul(argv[2], 0, 10); g_rank = std::atoi(argv[3]); g_world = std::atoi(argv[4]);
    std::vector<std::size_t> c(1, calls);
    if (which == 0) { auto k = hep::make_plain_chkpt<double>(fast_engine()); hep::mpi_plain(MPI_COMM_WORLD, hep::make_integrand<double>(fn(), 1), c, k, quiet<decltype(k)>()); }
    if (which == 1) { auto k = hep::make_vegas_chkpt<double>(2, 1.5, fast_engine()); hep::mpi_vegas(MPI_COMM_WORLD, hep::make_integrand<double>(fn(), 1), c, k, quiet<decltype(k)>()); }
    if (which == 2) { auto k = hep::make_multi_channel_chkpt<double>(0.0, 0.25, fast_engine()); hep::mpi_multi_channel(MPI_COMM_WORLD, hep::make_multi_channel_integrand<double>(fn(), 1, mp(), 1, 2), c, k, quiet<decltype(k)>()); }
    unsigned long q = calls / (unsigned long) g_world, rem = calls % (unsigned long) g_world;
    unsigned long expected = q + ((unsigned long) g_rank < rem ? 1 : 0);
    std::printf("count=%lu expected=%lu\n", g_count, expected);
    return g_count == expected ? 0 : 1;
}
"""


def slice_share(ll_text, driver, iteration):
    """returns (smt bit-vector expression of the number of calls handed to <iteration> inside <driver>, None) or (None, reason)"""
    m = re.search(r"^define [^\n]*@(_ZN3hep\d+%s[^\(]*)\(.*?\n(.*?)^}" % driver, ll_text, re.S | re.M)
    if not m:
        return None, "driver %s not found in IR" % driver
    body = m.group(2)
    defs = {}
    for line in body.splitlines():
        mm = re.match(r"^\s+(%[\w.]+) = (.*)$", line)
        if mm:
            defs[mm.group(1)] = mm.group(2).split(", !")[0].strip()
    rk = re.search(r"@\w*MPI_Comm_rank\w*\(i32[^,]*, i32\* (?:noundef )?(?:nonnull )?(%[\w.]+)\)", body)
    wd = re.search(r"@\w*MPI_Comm_size\w*\(i32[^,]*, i32\* (?:noundef )?(?:nonnull )?(%[\w.]+)\)", body)
    if not rk or not wd:
        return None, "MPI_Comm_rank / MPI_Comm_size calls not found"
    it = re.search(r"(?:invoke|call) [^\n]*@_ZN3hep\d+%s[^\(]*\(([^\n]*)" % iteration, body)
    if not it:
        return None, "call of %s not found" % iteration
    am = re.search(r"i64 (?:noundef )?(%[\w.]+)", it.group(1))
    if not am:
        return None, "no i64 argument in the call of %s" % iteration
    enc = ir2smt.Enc("bv")

    def tr(v, ty, depth=0):
        if depth > 60:
            raise ir2smt.Unsupported("slice too deep")
        if re.match(r"^-?\d+$", v) or v in ("true", "false"):
            return enc.const(ty, v)
        ins = defs.get(v)
        if ins is None:
            raise ir2smt.Unsupported("leaf " + v)
        mm = re.match(r"^load (i\d+), i\d+\* (%[\w.]+)", ins)
        if mm:
            if mm.group(2) == rk.group(1):
                return "rank"
            if mm.group(2) == wd.group(1):
                return "world"
            if mm.group(1) == "i64":
                return "calls"
            raise ir2smt.Unsupported("load " + ins)
        mm = re.match(r"^(add|sub|mul|udiv|urem|sdiv|srem|and|or|xor|shl|lshr)(?: nuw| nsw| exact)* (i\d+) (\S+), (\S+)$", ins)
        if mm:
            a, b = tr(mm.group(3), mm.group(2), depth + 1), tr(mm.group(4), mm.group(2), depth + 1)
            if mm.group(1) in ("sdiv", "srem"):
                return "(%s %s %s)" % ({"sdiv": "bvsdiv", "srem": "bvsrem"}[mm.group(1)], a, b)
            return enc.binop(mm.group(1), mm.group(2), a, b)
        mm = re.match(r"^icmp (\w+) (i\d+) (\S+), (\S+)$", ins)
        if mm:
            return enc.icmp(mm.group(1), mm.group(2), tr(mm.group(3), mm.group(2), depth + 1), tr(mm.group(4), mm.group(2), depth + 1))
        mm = re.match(r"^(zext|sext|trunc) (i\d+) (\S+) to (i\d+)$", ins)
        if mm:
            src, dst = int(mm.group(2)[1:]), int(mm.group(4)[1:])
            x = tr(mm.group(3), mm.group(2), depth + 1)
            if mm.group(1) == "trunc":
                return "((_ extract %d 0) %s)" % (dst - 1, x)
            if src == 1:
                return "(ite %s %s %s)" % (x, enc.const(mm.group(4), 1 if mm.group(1) == "zext" else -1), enc.const(mm.group(4), 0))
            return "((_ %s %d) %s)" % ("zero_extend" if mm.group(1) == "zext" else "sign_extend", dst - src, x)
        mm = re.match(r"^select i1 (\S+), (i\d+) (\S+), i\d+ (\S+)$", ins)
        if mm:
            return "(ite %s %s %s)" % (tr(mm.group(1), "i1", depth + 1), tr(mm.group(3), mm.group(2), depth + 1), tr(mm.group(4), mm.group(2), depth + 1))
        raise ir2smt.Unsupported("instruction in slice: " + ins)

    try:
        return tr(am.group(1), "i64"), None
    except ir2smt.Unsupported as ex:
        return None, str(ex)


def job_share(job, tier, repo, workdir):
    """C16: the share expression of the three MPI drivers equals q + (rank < rem) for all 64-bit call counts and all int rank < world"""
    res = dict(checks={}, violations=[], inconclusive=[], samples=[], obligations=0, discharged=0, queries=0, solver_s=0.0,
               states=0, transitions=0, replays=0)
    wrapper = os.path.join(HERE, "harness_i", "w_drivers.cpp")
    ll, err = emit_ir(wrapper, repo, workdir, extra=["-fno-inline", "-I" + os.path.join(HERE, "sym", "mpi_stub")], exceptions=True)
    if ll is None:
        res["inconclusive"].append("clang failed: " + err[-400:])
        return res
    ll_text = open(ll).read()
    cap = job.get("cap", 60 if tier == "quick" else 600)
    drivers = [("mpi_plain", "plain_iteration", 0), ("mpi_vegas", "vegas_iteration", 1), ("mpi_multi_channel", "multi_channel_iteration", 2)]
    spec = "(bvadd (bvudiv calls ((_ sign_extend 32) world)) (ite (bvult ((_ sign_extend 32) rank) (bvurem calls ((_ sign_extend 32) world))) (_ bv1 64) (_ bv0 64)))"
    decl = "(declare-const calls (_ BitVec 64))\n(declare-const rank (_ BitVec 32))\n(declare-const world (_ BitVec 32))\n"
    pre = "(and (bvsle (_ bv0 32) rank) (bvslt rank world))"
    rexe = None
    for drv, itn, which in drivers:
        key = "C16|drivers.%s_hands_the_documented_share_to_the_iteration" % drv
        st = res["checks"].setdefault(key, dict(reached=1, discharged=0, violated=0, unknown=0))
        res["obligations"] += 1
        res["states"] += 1
        expr, why = slice_share(ll_text, drv, itn)
        if expr is None:
            st["unknown"] = 1
            res["inconclusive"].append("%s: share expression could not be sliced from the IR: %s" % (drv, why))
            continue
        base = "(set-logic ALL)\n(set-option :produce-models true)\n" + decl + "(assert %s)\n(assert (not (= %s %s)))\n" % (pre, expr, spec)
        # prefer a counterexample that can be replayed (few enough calls)
        verdict, answers, dt = solve(base + "(assert (bvult calls (_ bv6000000000 64)))\n(check-sat)\n(get-value (calls rank world))\n", cap)
        small = verdict == "sat"
        if verdict == "unsat" or verdict == "unknown":
            verdict, answers2, dt2 = solve(base + "(check-sat)\n", cap)
            dt += dt2
            if verdict == "sat":
                verdict, answers, _ = solve(base + "(check-sat)\n(get-value (calls rank world))\n", cap)
            else:
                answers = answers2
        res["queries"] += 2
        res["solver_s"] += dt
        res["transitions"] += 1
        res["samples"].append({"driver": drv, "sliced_share_expression": expr[:300], "verdict": verdict,
                               "solvers": {n: a[0] for n, a in answers.items() if a[0] != "skip"}})
        if verdict == "unsat":
            st["discharged"] = 1
            res["discharged"] += 1
        elif verdict == "sat":
            st["violated"] = 1
            out = [a[1] for a in answers.values() if a[0] == "sat"][0]
            vals = {}
            for var in ("calls", "rank", "world"):
                mm = re.search(r"\(%s (?:#x([0-9a-fA-F]+)|#b([01]+)|\(_ bv(\d+) \d+\))\)" % var, out)
                if mm:
                    vals[var] = int(mm.group(1), 16) if mm.group(1) else (int(mm.group(2), 2) if mm.group(2) else int(mm.group(3)))
            confirmed = False
            note = "counterexample on the IR slice of %s" % drv
            if small and vals.get("calls", 1 << 62) < 6000000000:
                if rexe is None:
                    rexe = os.path.join(workdir, "replay_share")
                    open(rexe + ".cpp", "w").write(REPLAY_SHARE)
                    rc, o = sh(["g++", "-std=c++11", "-O2", "-I" + os.path.join(HERE, "sym", "mpi_stub"), "-I" + os.path.join(repo, "include"),
                                rexe + ".cpp", "-o", rexe])
                    if rc != 0:
                        note += "; replay program did not compile: " + o[-200:]
                        rexe = None
                if rexe:
                    rc, o = sh([rexe, str(which), str(vals["calls"]), str(vals["rank"]), str(vals["world"])], timeout=900)
                    res["replays"] += 1
                    confirmed = rc == 1
                    note += "; real driver run with these values: " + o.strip()[-120:]
            res["violations"].append({"check": key, "confirmed": confirmed, "inputs": {k: str(v) for k, v in vals.items()}, "choices": [], "note": note})
        else:
            st["unknown"] = 1
            res["inconclusive"].append("%s: no solver decided the share expression within %ds" % (drv, cap))
    return res


KINDS = {"split": job_split, "share": job_share}



def run_job(job, tier, idx, pid, repo):
    t0 = time.time()
    workdir = os.path.join(HERE, "out", pid, "ri_%03d" % idx)
    try:
        r = KINDS[job["kind"]](job, tier, repo, workdir)
    except Exception as ex:  # noqa: BLE001
        import traceback
        r = dict(inconclusive=["route I job crashed: %s\n%s" % (ex, traceback.format_exc()[-800:])])
    r["job"] = job
    r["wall"] = time.time() - t0
    return r
