"""route_i.py - Route I: LLVM IR -> C -> CBMC jobs (filled in later)"""


def run_job(job, tier, idx, pid, repo):
    return {"job": job, "inconclusive": ["route I not implemented yet"], "wall": 0.0}
