#!/usr/bin/env python3
"""run_check.py <PROPERTY-ID> [--tier quick|thorough]

Rebuilds the harnesses from /repo's current working tree, runs every obligation registered for the
property in plan.py (Route S: symbolic execution of the real templates with z3; Route I: LLVM IR ->
C -> CBMC), writes /verif/evidence/<ID>.json and prints KNOWN-FINDING / VIOLATION lines.

exit 0: property held on everything explored (known findings only)
exit 1: violation not listed in known_findings.json (a line `VIOLATION property=<id> replay=<path>`)
exit 2: inconclusive (solver unknown / vacuous harness / build failure) - never reported as success
"""
import argparse
import concurrent.futures as cf
import hashlib
import json
import os
import subprocess
import sys
import time

HERE = os.path.dirname(os.path.abspath(__file__))
REPO = os.environ.get("VERIF_REPO", "/repo")
BUILD = os.path.join(HERE, "build")
OUT = os.path.join(HERE, "out")
sys.path.insert(0, HERE)

import plan  # noqa: E402
import route_i  # noqa: E402

CXX = "g++"
CXXFLAGS = ["-std=c++14", "-O1", "-g0", "-D_GLIBCXX_ASSERTIONS", "-DHEP_MC_VERIF", "-w",
            "-I" + os.path.join(HERE, "sym"), "-I" + os.path.join(REPO, "include")]


def sh(cmd, **kw):
    return subprocess.run(cmd, stdout=subprocess.PIPE, stderr=subprocess.STDOUT, text=True, **kw)


def tree_hash(paths):
    h = hashlib.sha256()
    for root in paths:
        if os.path.isfile(root):
            files = [root]
        else:
            files = []
            for d, _, fs in os.walk(root):
                for f in fs:
                    files.append(os.path.join(d, f))
        for f in sorted(files):
            h.update(f.encode())
            with open(f, "rb") as fh:
                h.update(fh.read())
    return h.hexdigest()[:20]


def build_harness(name):
    """compile harness/<name>.cpp against /repo's current headers (content-addressed cache)"""
    base, _, flavour = name.partition("@")   # "h_driver@24": numeric_limits of sym::real mirror float
    src = os.path.join(HERE, "harness", base + ".cpp")
    key = tree_hash([src, os.path.join(HERE, "sym"), os.path.join(REPO, "include")])
    exe = os.path.join(BUILD, "%s.%s" % (name, key))
    if os.path.exists(exe):
        return exe, 0.0, ""
    os.makedirs(BUILD, exist_ok=True)
    # drop stale binaries of the same harness
    for f in os.listdir(BUILD):
        if f.startswith(name + ".") and f != os.path.basename(exe):
            try:
                os.remove(os.path.join(BUILD, f))
            except OSError:
                pass
    t0 = time.time()
    extra = list(plan.HARNESS_FLAGS.get(base, []))
    if flavour.endswith("fp"):     # "h_x@24fp": bit-precise IEEE model of the flavour
        extra += ["-DSYM_FP", "-DSYM_DIGITS=" + flavour[:-2]]
    elif flavour:
        extra += ["-DSYM_DIGITS=" + flavour]
    r = sh([CXX] + CXXFLAGS + extra + [src, "-o", exe + ".tmp", "-lz3"] + plan.HARNESS_LIBS.get(base, []))
    if r.returncode != 0:
        return None, time.time() - t0, r.stdout[-4000:]
    os.replace(exe + ".tmp", exe)
    return exe, time.time() - t0, ""


def cfg_str(cfg):
    return ",".join("%s=%s" % (k, v) for k, v in sorted(cfg.items()))


def run_one(cmd, out, wall_limit):
    t0 = time.time()
    try:
        r = sh(cmd, timeout=wall_limit)
        rc, log = r.returncode, r.stdout
    except subprocess.TimeoutExpired:
        rc, log = -9, "timeout"
    res = None
    if rc == 0 and os.path.exists(out):
        try:
            res = json.load(open(out))
        except Exception as ex:  # noqa: BLE001
            log += "\nbad json: %s" % ex
    return rc, log, res, time.time() - t0


def cross_check(smt_dir, k):
    """second opinion on a sample of the discharged obligations: cvc5 must not find a model where z3 said unsat"""
    files = sorted(f for f in os.listdir(smt_dir) if f.endswith("_unsat.smt2"))
    if not files:
        return dict(checked=0, agreed=0, undecided=0, disagreed=[])
    step = max(1, len(files) // k)
    first = int(os.environ.get("VERIF_SEED", "0")) % step
    sample = files[first::step][:k]
    out = dict(checked=0, agreed=0, undecided=0, disagreed=[])
    for f in sample:
        path = os.path.join(smt_dir, f)
        try:
            r = subprocess.run(["cvc5", "--lang=smt2", "--tlimit=20000", path], stdout=subprocess.PIPE, stderr=subprocess.STDOUT,
                               text=True, timeout=30)
            ans = [l.strip() for l in r.stdout.splitlines() if l.strip() in ("sat", "unsat", "unknown")]
            first = ans[0] if ans and "(error" not in r.stdout else "unknown"
        except subprocess.TimeoutExpired:
            first = "unknown"
        out["checked"] += 1
        if first == "unsat":
            out["agreed"] += 1
        elif first == "sat":
            out["disagreed"].append(path)
        else:
            out["undecided"] += 1
    return out


def merge_parts(parts):
    """sums the results of the parts of a split job"""
    m = None
    for r in parts:
        if r is None:
            return None
        if m is None:
            m = json.loads(json.dumps(r))
            continue
        for k in ("paths", "aborted_infeasible", "aborted_unknown", "aborted_cap", "aborted_ub", "decisions", "queries",
                  "q_sat", "q_unsat", "q_unknown", "solver_s", "ub_events", "smt2_files"):
            m[k] += r[k]
        m["wall_s"] = max(m["wall_s"], r["wall_s"])
        m["complete"] = m["complete"] and r["complete"]
        m["budget_hit"] = m["budget_hit"] or r["budget_hit"]
        for k, v in r["abort_reasons"].items():
            m["abort_reasons"][k] = m["abort_reasons"].get(k, 0) + v
        for k, v in r["checks"].items():
            c = m["checks"].setdefault(k, dict(reached=0, discharged=0, violated=0, unknown=0, confirmed=0))
            for kk in c:
                c[kk] += v[kk]
        m["violations"] += r["violations"]
        m["samples"] = (m["samples"] + r["samples"])[:3]
        m["validated_paths"] = m.get("validated_paths", 0) + r.get("validated_paths", 0)
        m["validation_disagreements"] = m.get("validation_disagreements", []) + r.get("validation_disagreements", [])
        m["ub_log"] = (m["ub_log"] + r["ub_log"])[:16]
    return m


def run_job_s(job, exe, tier, idx, pid, pool=None):
    """one Route S obligation run (optionally split into parts explored by separate processes)"""
    os.makedirs(os.path.join(OUT, pid), exist_ok=True)
    split = int(job.get("split", 1))
    base = [exe, "--cfg", cfg_str(job["cfg"]), "--seed", os.environ.get("VERIF_SEED", "0"),
            "--timeout-ms", str(job.get("timeout_ms", 180000 if tier == "quick" else 600000)),
            "--budget-s", str(job.get("budget_s", 600 if tier == "quick" else 6000))]
    wall_limit = job.get("wall_s", 900 if tier == "quick" else 7200)
    t0 = time.time()
    if split <= 1:
        out = os.path.join(OUT, pid, "job%03d.json" % idx)
        smt_dir = os.path.join(OUT, pid, "smt2_%03d" % idx)
        if os.path.isdir(smt_dir):
            for f in os.listdir(smt_dir):
                os.remove(os.path.join(smt_dir, f))
        os.makedirs(smt_dir, exist_ok=True)
        rc, log, res, _ = run_one(base + ["--out", out, "--smt2", smt_dir], out, wall_limit)
        if res is not None:
            res["cross"] = cross_check(smt_dir, 1 if tier == "quick" else 6)
    else:
        cmds = []
        for part in range(split):
            out = os.path.join(OUT, pid, "job%03d_p%02d.json" % (idx, part))
            cmds.append((base + ["--out", out, "--split", str(split), "--part", str(part),
                                 "--split-depth", str(job.get("split_depth", 14))], out))
        with cf.ThreadPoolExecutor(max_workers=split) as ex:
            outs = list(ex.map(lambda c: run_one(c[0], c[1], wall_limit), cmds))
        rc = 0 if all(o[0] == 0 for o in outs) else [o[0] for o in outs if o[0] != 0][0]
        log = "\n".join(o[1][-500:] for o in outs if o[0] != 0)
        res = merge_parts([o[2] for o in outs]) if rc == 0 else None
    return {"job": job, "rc": rc, "log": log[-2000:], "wall": time.time() - t0, "res": res, "cmd": " ".join(base)}


def load_known():
    p = os.path.join(HERE, "known_findings.json")
    if not os.path.exists(p):
        return []
    return json.load(open(p))["findings"]


def relevant(pid, check):
    """check names are '<comma separated property ids>|<name>'; untagged checks count for every property"""
    if "|" not in check:
        return True
    return pid in check.split("|", 1)[0].split(",")


def match_known(known, pid, harness, check, cfg):
    for k in known:
        if k.get("status") != "open" or k["property"] != pid:
            continue
        if k.get("harness") not in (None, harness):
            continue
        if k["check"] not in check:
            continue
        want = k.get("cfg", {})
        if all(str(cfg.get(a)) == str(b) for a, b in want.items()):
            return k
    return None


def main():
    ap = argparse.ArgumentParser()
    ap.add_argument("pid")
    ap.add_argument("--tier", default=os.environ.get("VERIF_TIER", "quick"))
    ap.add_argument("--jobs", type=int, default=int(os.environ.get("VERIF_JOBS", "16")))
    ap.add_argument("--only", default=None, help="substring filter on job label (debugging)")
    args = ap.parse_args()
    pid, tier = args.pid, args.tier
    seed = int(os.environ.get("VERIF_SEED", "0"))
    t_start = time.time()

    spec = plan.PLAN[pid]
    jobs = [j for j in spec["jobs"] if tier in j.get("tiers", ("quick", "thorough"))]
    if args.only:
        jobs = [j for j in jobs if args.only in j.get("label", "") or args.only in (j.get("harness", "") + ":" + cfg_str(j.get("cfg", {})))]
    known = load_known()

    inconclusive = []
    # ---- build -------------------------------------------------------------------------------
    harnesses = sorted({j["harness"] for j in jobs if j.get("route", "S") == "S"})
    exes = {}
    build_s = 0.0
    with cf.ThreadPoolExecutor(max_workers=args.jobs) as ex:
        for name, (exe, dt, err) in zip(harnesses, ex.map(build_harness, harnesses)):
            build_s += dt
            if exe is None:
                inconclusive.append("build of %s failed:\n%s" % (name, err))
            exes[name] = exe

    # ---- run ---------------------------------------------------------------------------------
    results = []
    with cf.ThreadPoolExecutor(max_workers=args.jobs) as ex:
        futs = []
        for idx, j in enumerate(jobs):
            if j.get("route", "S") == "S":
                if exes.get(j["harness"]) is None:
                    continue
                futs.append(ex.submit(run_job_s, j, exes[j["harness"]], tier, idx, pid))
            else:
                futs.append(ex.submit(route_i.run_job, j, tier, idx, pid, REPO))
        for f in futs:
            results.append(f.result())

    # ---- aggregate ---------------------------------------------------------------------------
    tot = dict(paths=0, decisions=0, queries=0, q_unsat=0, q_sat=0, unknown=0, solver_s=0.0,
               obligations=0, discharged=0, replays=0, confirmed=0, aborted_cap=0, aborted_ub=0)
    check_table = {}
    samples = []
    violations = []      # (job, violation dict)
    known_lines = []
    functions = set(spec.get("functions", []))
    for r in results:
        j = r["job"]
        label = j.get("label") or (j["harness"] + ":" + cfg_str(j.get("cfg", {})))
        if j.get("route", "S") == "I":
            ri = r
            tot["obligations"] += ri.get("obligations", 0)
            tot["discharged"] += ri.get("discharged", 0)
            tot["queries"] += ri.get("queries", 0)
            tot["solver_s"] += ri.get("solver_s", 0.0)
            tot["paths"] += ri.get("states", 0)
            tot["decisions"] += ri.get("transitions", 0)
            tot["replays"] += ri.get("replays", 0)
            for s in ri.get("samples", [])[:2]:
                samples.append({"job": label, "route": "I", "sample": s})
            for msg in ri.get("inconclusive", []):
                inconclusive.append("%s: %s" % (label, msg))
            for v in ri.get("violations", []):
                violations.append((j, label, v))
            for name, st in ri.get("checks", {}).items():
                ct = check_table.setdefault(name, dict(reached=0, discharged=0, violated=0, unknown=0))
                for k in ct:
                    ct[k] += st.get(k, 0)
            continue
        res = r["res"]
        if res is None:
            inconclusive.append("%s: harness exited rc=%s: %s" % (label, r["rc"], r["log"][-500:]))
            continue
        tot["paths"] += res["paths"]
        tot["decisions"] += res["decisions"]
        tot["queries"] += res["queries"]
        tot["q_unsat"] += res["q_unsat"]
        tot["q_sat"] += res["q_sat"]
        tot["solver_s"] += res["solver_s"]
        tot["aborted_cap"] += res["aborted_cap"]
        tot["aborted_ub"] += res["aborted_ub"]
        if not res["complete"]:
            inconclusive.append("%s: exploration incomplete (budget hit)" % label)
        if res["aborted_unknown"] or res["q_unknown"]:
            tot["unknown"] += res["q_unknown"]
            inconclusive.append("%s: %d solver unknown(s)" % (label, res["q_unknown"]))
        if res["paths"] == 0:
            inconclusive.append("%s: VACUOUS (no feasible path completed)" % label)
        allowed_aborts = set(j.get("allow_abort", []))
        for why, n in res.get("abort_reasons", {}).items():
            if why in ("infeasible",):
                continue
            if why not in allowed_aborts:
                inconclusive.append("%s: %d path(s) abandoned: %s" % (label, n, why))
        for name, st in res["checks"].items():
            if not relevant(pid, name):
                continue
            ct = check_table.setdefault(name, dict(reached=0, discharged=0, violated=0, unknown=0))
            for k in ct:
                ct[k] += st[k]
            tot["obligations"] += st["reached"]
            tot["discharged"] += st["discharged"]
            if st["unknown"]:
                inconclusive.append("%s: check %s: %d unknown" % (label, name, st["unknown"]))
        for want in j.get("expect", []):
            cands = [(n, st) for n, st in res["checks"].items() if want in n]
            if cands and not any(relevant(pid, n) for n, _ in cands):
                continue   # this expectation belongs to another property served by the same job
            if not any(relevant(pid, n) and st["reached"] > 0 for n, st in cands):
                inconclusive.append("%s: VACUOUS: expected check '%s' never reached" % (label, want))
        for s in res["samples"][:1]:
            samples.append({"job": label, "route": "S", "sample": s})
        tot["replays"] += res.get("validated_paths", 0)
        cr = res.get("cross")
        if cr:
            for kk in ("checked", "agreed", "undecided"):
                tot["cross_" + kk] = tot.get("cross_" + kk, 0) + cr[kk]
            for pth in cr["disagreed"]:
                inconclusive.append("%s: cvc5 finds a model for an obligation z3 discharged (%s)" % (label, pth))
        for dis in res.get("validation_disagreements", []):
            if relevant(pid, dis.split(" ")[0]):
                inconclusive.append("%s: symbolic model and concrete run of the real code disagree on %s" % (label, dis))
        for v in res["violations"]:
            if not relevant(pid, v["check"]):
                continue
            tot["replays"] += 1
            tot["confirmed"] += 1 if v["confirmed"] else 0
            violations.append((j, label, v))
        # checks violated more often than recorded violations (cap per check) are covered by the
        # recorded ones (same check name)

    # ---- classify violations -------------------------------------------------------------------
    os.makedirs(os.path.join(OUT, "replay"), exist_ok=True)
    new_violations = []
    unconfirmed = []
    seen_known = {}
    for n, (j, label, v) in enumerate(violations):
        k = match_known(known, pid, j["harness"], v["check"], j.get("cfg", {}))
        rp = os.path.join(OUT, "replay", "%s_%03d.txt" % (pid, n))
        if j.get("route", "S") == "S":
            with open(rp, "w") as f:
                f.write(v["check"] + "\n")
                f.write(" ".join(str(c) for c in v["choices"]) + "\n")
                for val in v["inputs"].values():
                    f.write(val + "\n")
                f.write("\n")
            with open(rp + ".info", "w") as f:
                json.dump({"property": pid, "job": label, "harness": j["harness"], "cfg": j["cfg"],
                           "violation": v,
                           "replay_cmd": "%s --cfg %s --replay %s" % (
                               exes.get(j["harness"]), cfg_str(j["cfg"]), rp)}, f, indent=1)
        else:
            with open(rp, "w") as f:
                f.write(json.dumps(v, indent=1))
        if k is not None:
            if v.get("confirmed", True):
                seen_known.setdefault(k["id"], (k, label, v))
            continue
        if v.get("confirmed", True):
            new_violations.append((label, v, rp))
        else:
            unconfirmed.append((label, v, rp))

    for kid, (k, label, v) in sorted(seen_known.items()):
        line = "KNOWN-FINDING: property=%s %s [%s; check %s]" % (pid, k["what"], kid, v["check"])
        known_lines.append(line)
        print(line)

    # open findings that no longer show up are worth a remark (not an alarm)
    for k in known:
        if k.get("status") == "open" and k["property"] == pid and k["id"] not in seen_known:
            print("note: listed finding %s did not show up in this run (tier %s)" % (k["id"], tier))

    for label, v, rp in unconfirmed:
        inconclusive.append("%s: counterexample for %s did not reproduce in the concrete replay (%s)"
                            % (label, v["check"], rp))

    wall = time.time() - t_start
    # ---- evidence ----------------------------------------------------------------------------
    level = spec.get("level", "model_checking")
    coverage = {
        "states": max(tot["paths"], 0),
        "transitions": tot["decisions"],
        "traces_validated_against_impl": tot["replays"],
        "samples": samples[:12] if samples else [{"note": "no sample"}],
        "obligations": tot["obligations"],
        "discharged": tot["discharged"],
        "solver_queries": tot["queries"],
        "solver_unsat": tot["q_unsat"],
        "solver_sat": tot["q_sat"],
        "solver_unknown": tot["unknown"],
        "solver_time_s": round(tot["solver_s"], 3),
        "second_solver_cvc5": {"obligations_rechecked": tot.get("cross_checked", 0), "agreed_unsat": tot.get("cross_agreed", 0),
                               "undecided_within_20s": tot.get("cross_undecided", 0)},
        "build_time_s": round(build_s, 3),
        "jobs": [{"label": (r["job"].get("label") or r["job"]["harness"] + ":" + cfg_str(r["job"].get("cfg", {}))),
                  "route": r["job"].get("route", "S"),
                  "wall_s": round(r.get("wall", 0.0), 2),
                  "paths": (r["res"] or {}).get("paths") if r["job"].get("route", "S") == "S" else r.get("states"),
                  "queries": (r["res"] or {}).get("queries") if r["job"].get("route", "S") == "S" else r.get("queries")}
                 for r in results],
        "checks": check_table,
        "functions_encoded": sorted(functions),
        "bounds": spec.get("bounds", {}).get(tier, spec.get("bounds", {})),
        "outside_bounds": spec.get("outside", ""),
        "checker_cmd": "python3 run_check.py %s --tier %s" % (pid, tier),
        "trusted_base": spec.get("trusted_base", ["z3 4.8.12 (libz3)", "g++ 12 / libstdc++ (concrete parts of the harness)",
                                                  "sym::real exact-extended-real model (sym/sym.hpp)"]),
        "explanation": spec.get("explanation", ""),
        "known_findings_seen": known_lines,
        "new_violations": [{"job": l, "check": v["check"], "replay": rp} for l, v, rp in new_violations],
        "inconclusive": inconclusive[:40],
        "paths_abandoned_at_stated_caps": tot["aborted_cap"],
        "paths_ending_in_undefined_conversion": tot["aborted_ub"],
        "exhaustive": not inconclusive,
    }
    ev = {
        "property_id": pid,
        "tier": tier,
        "seed": seed,
        "level": level,
        "coverage": coverage,
        "assumptions": spec.get("assumptions", []),
        "wall_s": round(wall, 2),
        "violations": len(new_violations),
    }
    evdir = os.environ.get("VERIF_EVIDENCE_DIR", os.path.join(HERE, "evidence"))   # seeded-change experiments write elsewhere
    os.makedirs(evdir, exist_ok=True)
    with open(os.path.join(evdir, pid + ".json"), "w") as f:
        json.dump(ev, f, indent=1)

    print("%s tier=%s jobs=%d paths=%d obligations=%d discharged=%d queries=%d solver=%.1fs wall=%.1fs"
          % (pid, tier, len(results), tot["paths"], tot["obligations"], tot["discharged"], tot["queries"],
             tot["solver_s"], wall))
    if new_violations:
        for label, v, rp in new_violations:
            print("VIOLATION property=%s replay=%s" % (pid, rp))
            print("  job %s check %s" % (label, v["check"]))
        return 1
    if inconclusive:
        for m in inconclusive[:20]:
            print("INCONCLUSIVE: " + m)
        return 2
    return 0


if __name__ == "__main__":
    sys.exit(main())
