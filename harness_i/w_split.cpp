// Route I wrapper: the MPI work split helpers (C16)
#include "hep/mc/generator_helper.hpp"

extern "C" __attribute__((noinline)) unsigned long w_discard_before(unsigned long total, unsigned long rank, unsigned long world)
{
    return hep::discard_before(total, rank, world);
}

extern "C" __attribute__((noinline)) unsigned long w_discard_after(unsigned long total, unsigned long calls, unsigned long rank,
    unsigned long world)
{
    return hep::discard_after(total, calls, rank, world);
}
