// Route I wrapper: the three MPI drivers instantiated with trivial integrands, so that the per-rank share expression
// (the number of calls handed to the *_iteration function) can be sliced out of the compiler's IR (C16)
#include "hep/mc/multi_channel_integrand.hpp"
#include "hep/mc/mpi_multi_channel.hpp"
#include "hep/mc/mpi_plain.hpp"
#include "hep/mc/mpi_vegas.hpp"

struct unit_function
{
    double operator()(hep::mc_point<double> const&) const { return 1.0; }
};

struct unit_map
{
    double operator()(std::size_t, std::vector<double> const&, std::vector<double>&, std::vector<std::size_t> const&,
        std::vector<double>&, hep::multi_channel_map) const { return 1.0; }
};

extern "C" void w_mpi_plain(std::vector<std::size_t> const* calls)
{
    hep::mpi_plain(MPI_COMM_WORLD, hep::make_integrand<double>(unit_function(), 1), *calls);
}

extern "C" void w_mpi_vegas(std::vector<std::size_t> const* calls)
{
    hep::mpi_vegas(MPI_COMM_WORLD, hep::make_integrand<double>(unit_function(), 1), *calls);
}

extern "C" void w_mpi_multi_channel(std::vector<std::size_t> const* calls)
{
    hep::mpi_multi_channel(MPI_COMM_WORLD, hep::make_multi_channel_integrand<double>(unit_function(), 1, unit_map(), 1, 2), *calls);
}
