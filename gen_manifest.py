#!/usr/bin/env python3
"""gen_manifest.py - writes MANIFEST.json from plan.py (claimed properties) and the list below"""
import json
import plan

ALL = ["C01", "C02", "C03", "C04", "C05", "C06", "C07", "C08", "C19", "C09", "C10", "C11", "C12", "C13", "C14",
       "C15", "C16", "C17", "C18", "C20"]

NOT_APPLICABLE = {
    "C14": "rounding-error bound for N up to 1e7: exact reals make the compensation identically zero (vacuous) and "
           "bit-precise solving gives no verdict even at float32 N=3 (900 s timeouts on every back end, DESIGN.md section 6); "
           "a bounded-N result would say nothing about the N-independence that is the point",
}

LEVEL_TEXT = {
    "model_checking": "bounded symbolic execution of the real templates (every path inside the stated bounds enumerated by fork-and-replay, one z3 "
                      "query per branch); every obligation discharged by z3 on every path (states = paths, transitions = decisions); models are "
                      "replayed through the real code with the native numeric type; sample paths are validated concretely on every run. The right "
                      "level for a property quantified over all inputs of a numeric template library: exhaustive inside small sizes, nothing claimed outside.",
    "other": "same machinery as the model_checking checks, but part of the property rests on an assumed contract that is not encoded (see level_note)",
    "proof": "induction step decided by SMT for unbounded (64-bit) values",
}

checks = []
na = []
for pid in ALL:
    if pid in plan.PLAN and plan.PLAN[pid].get("claimed", True):
        p = plan.PLAN[pid]
        checks.append({
            "property_id": pid,
            "quick_cmd": "python3 run_check.py %s --tier quick" % pid,
            "thorough_cmd": "python3 run_check.py %s --tier thorough" % pid,
            "evidence_file": "evidence/%s.json" % pid,
            "replay_cmd_template": "python3 replay.py {path}",
            "engine": p.get("engine", "route-S"),
            "level_claimed": {
                "category": p.get("level", "model_checking"),
                "text": p.get("level_text") or LEVEL_TEXT.get(p.get("level", "model_checking"), ""),
                "design_ref": "DESIGN.md section 3, " + pid,
            },
            "level_note": p.get("level_note") or ("bounds: " + str(p.get("bounds", {}).get("quick", p.get("bounds", ""))) + " | outside: " + str(p.get("outside", ""))
                                                  + " | assumes: " + "; ".join(p.get("assumptions", [])[:4])),
            "technique": p.get("technique", "symbolic execution of the real C++ templates (T = sym::real, z3 terms), "
                                            "fork-by-replay path enumeration, z3 verdict per obligation within stated bounds"),
        })
    else:
        na.append({"property_id": pid,
                   "reason": NOT_APPLICABLE.get(pid, "check not built yet (work in progress; planned in DESIGN.md section 3)")})

m = {
    "version": 1,
    "setup_cmd": "mkdir -p build out evidence && python3 -c 'import plan'",
    "hooks": {
        "guard": "HEP_MC_VERIF",
        "enable": "harnesses are compiled with -DHEP_MC_VERIF (no hook is currently present in /repo: all drivers are "
                  "templates over Checkpoint/Callback/engine/numeric type, so the harnesses inject mocks from outside)",
        "baseline_off_cmd": "rm -rf /tmp/hepmc_baseline_off && meson setup /tmp/hepmc_baseline_off /repo >/dev/null && "
                            "ninja -C /tmp/hepmc_baseline_off >/dev/null && meson test -C /tmp/hepmc_baseline_off; "
                            "rc=$?; rm -rf /tmp/hepmc_baseline_off; exit $rc",
        "source_commits": [],
        "add_only": True,
    },
    "engines": [
        {"name": "route-S", "path": "sym/sym.hpp, sym/harness.hpp, harness/*.cpp",
         "serves_properties": [c["property_id"] for c in checks if c["engine"] == "route-S"],
         "kind_free_text": "source-level symbolic execution: the real hep-mc templates instantiated with T = sym::real "
                           "(z3 Real terms, concrete non-finite kinds), fork-by-replay DFS, one-shot z3 query per branch "
                           "and per obligation, concrete double replay of every counterexample"},
        {"name": "route-I", "path": "ir/ir2c.py, route_i.py, harness_i/*",
         "serves_properties": [c["property_id"] for c in checks if c["engine"] != "route-S"],
         "kind_free_text": "clang++-14 LLVM IR of extern-C wrappers around the real functions -> C (own translator) -> "
                           "CBMC 6.11 bounded model checking with unwinding assertions"},
    ],
    "checks": checks,
    "not_applicable": na,
    "notes": "Genuine defects repaired in /repo by unguarded 'fix:' commits (oldest first): fbb4d00 0618972 a45cd6a 2f3a3b7 386ec99 3c9fbc6 6caaf14 2bb9e90 feec3dd 247e81b 437edf2; see known_findings.json and DESIGN.md section 4. "
             "All checks rebuild their harnesses from /repo's current headers on every run (content-addressed cache in "
             "build/). Exit 2 = inconclusive (solver unknown, vacuous harness, build failure): never reported as success.",
}
json.dump(m, open("MANIFEST.json", "w"), indent=1)
print("claimed:", [c["property_id"] for c in checks])
