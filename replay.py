#!/usr/bin/env python3
"""replay.py <replay-file>: re-runs a reported counterexample concretely (T = double) against the
real code in /repo's current tree. Exit 1 if the violation reproduces."""
import json
import os
import subprocess
import sys

import run_check

p = sys.argv[1]
info = json.load(open(p + ".info")) if os.path.exists(p + ".info") else None
if info is None:
    print(open(p).read())
    sys.exit(0)
exe, _, err = run_check.build_harness(info["harness"])
if exe is None:
    print(err)
    sys.exit(2)
r = subprocess.run([exe, "--cfg", run_check.cfg_str(info["cfg"]), "--replay", p])
sys.exit(r.returncode)
