#!/bin/bash
# mutant_test.sh <patch.diff> <prop> [<prop>...] : apply a seeded change to /repo, run the quick checks, undo it
patch=$1; shift
cd /repo || exit 9
if ! git diff --quiet; then echo "repo dirty"; exit 9; fi
git apply "$patch" || { echo "patch does not apply"; exit 9; }
cd /verif
export VERIF_EVIDENCE_DIR=/verif/out/mutant_evidence
for p in "$@"; do
  python3 run_check.py $p --tier ${TIER:-quick} > /tmp/mut_$p.log 2>&1; rc=$?
  echo "$p rc=$rc $(grep -c '^VIOLATION' /tmp/mut_$p.log) violation line(s); $(grep -m1 -A1 '^VIOLATION' /tmp/mut_$p.log | tail -1)"
  grep -m3 "INCONCLUSIVE" /tmp/mut_$p.log
done
git -C /repo checkout -- .
