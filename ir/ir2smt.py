#!/usr/bin/env python3
"""ir2smt.py - translates loop-free integer functions from LLVM 14 textual IR into SMT-LIB2 define-fun's.

Two encodings of iN values:
  bv  : (_ BitVec N), exact machine semantics
  int : mathematical integers with explicit wrap-around (mod 2^N) after every operation that can wrap
        (keeps the machine semantics; lets a solver use integer reasoning for div/mod/mul)

Supported: straight-line code and acyclic control flow (phi nodes become ite over path conditions),
add sub mul udiv urem and or xor shl lshr icmp select zext trunc, llvm.usub.sat / umin / umax, calls to
other translated functions, ret.  Anything else raises (the check is then inconclusive, never passed).
"""
import re
import sys


class Unsupported(Exception):
    pass


def parse_functions(text):
    funcs = {}
    cur = None
    for line in text.splitlines():
        m = re.match(r'^define\s+.*?\s(i\d+|void)\s+@([\w.]+)\((.*?)\)', line)
        if m:
            args = []
            for a in [x.strip() for x in m.group(3).split(',') if x.strip()]:
                parts = a.split()
                args.append((parts[0], parts[-1]))
            cur = dict(name=m.group(2), ret=m.group(1), args=args, blocks=[], order=[])
            cur['blocks'].append(('entry', []))
            continue
        if cur is None:
            continue
        if line.startswith('}'):
            funcs[cur['name']] = cur
            cur = None
            continue
        line = line.split(' ;')[0].rstrip() if not line.strip().startswith(';') else ''
        if not line.strip():
            continue
        m = re.match(r'^([\w.]+):', line)
        if m:
            cur['blocks'].append((m.group(1), []))
            continue
        cur['blocks'][-1][1].append(line.strip())
    return funcs


class Enc:
    def __init__(self, mode):
        self.mode = mode

    def sort(self, ty):
        n = int(ty[1:])
        if n == 1:
            return 'Bool'
        return '(_ BitVec %d)' % n if self.mode == 'bv' else 'Int'

    def const(self, ty, v):
        n = int(ty[1:])
        if v == 'true':
            v = 1
        elif v == 'false':
            v = 0
        v = int(v)
        if n == 1:
            return 'true' if v & 1 else 'false'
        v %= (1 << n)
        return '(_ bv%d %d)' % (v, n) if self.mode == 'bv' else str(v)

    def wrap(self, n, e):
        return e if self.mode == 'bv' else '(mod %s %d)' % (e, 1 << n)

    def binop(self, op, ty, a, b):
        n = int(ty[1:])
        if self.mode == 'bv':
            t = {'add': 'bvadd', 'sub': 'bvsub', 'mul': 'bvmul', 'udiv': 'bvudiv', 'urem': 'bvurem', 'and': 'bvand',
                 'or': 'bvor', 'xor': 'bvxor', 'shl': 'bvshl', 'lshr': 'bvlshr'}[op]
            if n == 1:
                return {'and': '(and %s %s)', 'or': '(or %s %s)', 'xor': '(xor %s %s)'}[op] % (a, b)
            return '(%s %s %s)' % (t, a, b)
        if op == 'add':
            return self.wrap(n, '(+ %s %s)' % (a, b))
        if op == 'sub':
            return self.wrap(n, '(- %s %s)' % (a, b))
        if op == 'mul':
            return self.wrap(n, '(* %s %s)' % (a, b))
        if op == 'udiv':
            # LLVM: division by zero is undefined; SMT-LIB bvudiv gives all ones - callers assume the divisor non-zero
            return '(div %s %s)' % (a, b)
        if op == 'urem':
            return '(mod %s %s)' % (a, b)
        if op == 'xor' and b == str((1 << n) - 1):
            return '(- %d %s)' % ((1 << n) - 1, a)        # bitwise not
        if op == 'xor' and a == str((1 << n) - 1):
            return '(- %d %s)' % ((1 << n) - 1, b)
        if op == 'shl' and b.isdigit():
            return self.wrap(n, '(* %s %d)' % (a, 1 << int(b)))
        if op == 'lshr' and b.isdigit():
            return '(div %s %d)' % (a, 1 << int(b))
        raise Unsupported('int encoding of ' + op)

    def icmp(self, pred, ty, a, b):
        n = int(ty[1:])
        if n == 1:
            if pred == 'eq':
                return '(= %s %s)' % (a, b)
            if pred == 'ne':
                return '(not (= %s %s))' % (a, b)
            raise Unsupported('icmp on i1')
        if self.mode == 'bv':
            t = {'eq': '(= %s %s)', 'ne': '(not (= %s %s))', 'ult': '(bvult %s %s)', 'ule': '(bvule %s %s)',
                 'ugt': '(bvugt %s %s)', 'uge': '(bvuge %s %s)', 'slt': '(bvslt %s %s)', 'sle': '(bvsle %s %s)',
                 'sgt': '(bvsgt %s %s)', 'sge': '(bvsge %s %s)'}[pred]
            return t % (a, b)
        t = {'eq': '(= %s %s)', 'ne': '(not (= %s %s))', 'ult': '(< %s %s)', 'ule': '(<= %s %s)',
             'ugt': '(> %s %s)', 'uge': '(>= %s %s)'}.get(pred)
        if t is None:
            raise Unsupported('signed compare in int encoding')
        return t % (a, b)


def translate(funcs, name, enc, out, done):
    if name in done:
        return
    f = funcs[name]
    env = {}
    types = {}
    for ty, a in f['args']:
        env[a] = a.replace('%', 'a')
        types[a] = ty

    def val(ty, tok):
        tok = tok.strip()
        if tok in env:
            return env[tok]
        if re.match(r'^-?\d+$', tok) or tok in ('true', 'false'):
            return enc.const(ty, tok)
        raise Unsupported('operand ' + tok)

    block_cond = {}      # block label -> path condition
    edges = {}           # (from, to) -> condition
    labels = [b[0] for b in f['blocks']]
    block_cond[labels[0]] = 'true'
    ret_expr = None
    rets = []
    lets = []            # (smt name, sort, expr)

    def bind(dst, ty, expr):
        n = '%s_%s' % (name, dst.replace('%', 'v'))
        lets.append((n, enc.sort(ty), expr))
        env[dst] = n
        types[dst] = ty

    for label, insns in f['blocks']:
        if label not in block_cond:
            inc = [c for (a, b), c in edges.items() if b == label]
            if not inc:
                raise Unsupported('unreachable or backward block ' + label)
            block_cond[label] = '(or %s)' % ' '.join(inc) if len(inc) > 1 else inc[0]
        here = block_cond[label]
        for ins in insns:
            m = re.match(r'^(%[\w.]+) = (add|sub|mul|udiv|urem|and|or|xor|shl|lshr)( nuw| nsw| exact)* (i\d+) (\S+), (\S+)$', ins)
            if m:
                bind(m.group(1), m.group(4), enc.binop(m.group(2), m.group(4), val(m.group(4), m.group(5)), val(m.group(4), m.group(6))))
                continue
            m = re.match(r'^(%[\w.]+) = icmp (\w+) (i\d+) (\S+), (\S+)$', ins)
            if m:
                bind(m.group(1), 'i1', enc.icmp(m.group(2), m.group(3), val(m.group(3), m.group(4)), val(m.group(3), m.group(5))))
                continue
            m = re.match(r'^(%[\w.]+) = select i1 (\S+), (i\d+) (\S+), i\d+ (\S+)$', ins)
            if m:
                bind(m.group(1), m.group(3), '(ite %s %s %s)' % (val('i1', m.group(2)), val(m.group(3), m.group(4)), val(m.group(3), m.group(5))))
                continue
            m = re.match(r'^(%[\w.]+) = zext (i\d+) (\S+) to (i\d+)$', ins)
            if m:
                src, dst = int(m.group(2)[1:]), int(m.group(4)[1:])
                v = val(m.group(2), m.group(3))
                if src == 1:
                    e = '(ite %s %s %s)' % (v, enc.const(m.group(4), 1), enc.const(m.group(4), 0))
                elif enc.mode == 'bv':
                    e = '((_ zero_extend %d) %s)' % (dst - src, v)
                else:
                    e = v
                bind(m.group(1), m.group(4), e)
                continue
            m = re.match(r'^(%[\w.]+) = trunc (i\d+) (\S+) to (i\d+)$', ins)
            if m:
                dst = int(m.group(4)[1:])
                v = val(m.group(2), m.group(3))
                e = '((_ extract %d 0) %s)' % (dst - 1, v) if enc.mode == 'bv' else '(mod %s %d)' % (v, 1 << dst)
                bind(m.group(1), m.group(4), e)
                continue
            m = re.match(r'^(%[\w.]+) = (?:tail )?call (i\d+) @llvm\.(usub\.sat|umin|umax)\.i\d+\(i\d+ (?:noundef )?(\S+), i\d+ (?:noundef )?(\S+)\)', ins)
            if m:
                ty = m.group(2)
                a, b = val(ty, m.group(4)), val(ty, m.group(5))
                lt = enc.icmp('ult', ty, a, b)
                if m.group(3) == 'usub.sat':
                    e = '(ite %s %s %s)' % (lt, enc.const(ty, 0), enc.binop('sub', ty, a, b))
                elif m.group(3) == 'umin':
                    e = '(ite %s %s %s)' % (lt, a, b)
                else:
                    e = '(ite %s %s %s)' % (lt, b, a)
                bind(m.group(1), ty, e)
                continue
            m = re.match(r'^(%[\w.]+) = (?:tail )?call (i\d+) @([\w.]+)\((.*)\)', ins)
            if m and m.group(3) in funcs:
                translate(funcs, m.group(3), enc, out, done)
                args = []
                for a in m.group(4).split(','):
                    parts = a.split()
                    args.append(val(parts[0], parts[-1]))
                bind(m.group(1), m.group(2), '(%s %s)' % (m.group(3), ' '.join(args)))
                continue
            m = re.match(r'^(%[\w.]+) = phi (i\d+) (.*)$', ins)
            if m:
                ty = m.group(2)
                alts = re.findall(r'\[ (\S+), %([\w.]+) \]', m.group(3))
                e = None
                for v, frm in reversed(alts):
                    c = edges.get((frm, label))
                    if c is None:
                        raise Unsupported('phi from unknown edge')
                    e = val(ty, v) if e is None else '(ite %s %s %s)' % (c, val(ty, v), e)
                bind(m.group(1), ty, e)
                continue
            m = re.match(r'^br i1 (\S+), label %([\w.]+), label %([\w.]+)$', ins)
            if m:
                c = val('i1', m.group(1))
                edges[(label, m.group(2))] = '(and %s %s)' % (here, c)
                edges[(label, m.group(3))] = '(and %s (not %s))' % (here, c)
                continue
            m = re.match(r'^br label %([\w.]+)$', ins)
            if m:
                edges[(label, m.group(1))] = here
                continue
            m = re.match(r'^ret (i\d+) (\S+)$', ins)
            if m:
                rets.append((here, val(m.group(1), m.group(2))))
                continue
            raise Unsupported('instruction: ' + ins)
    if not rets:
        raise Unsupported('no return')
    ret_expr = rets[-1][1]
    for c, v in reversed(rets[:-1]):
        ret_expr = '(ite %s %s %s)' % (c, v, ret_expr)
    body = ret_expr
    for n, srt, e in reversed(lets):
        body = '(let ((%s %s)) %s)' % (n, e, body)
    params = ' '.join('(%s %s)' % (a.replace('%', 'a'), enc.sort(ty)) for ty, a in f['args'])
    out.append('(define-fun %s (%s) %s\n  %s)' % (name, params, enc.sort(f['ret']), body))
    done.add(name)


def ir_to_smt(ll_text, names, mode):
    funcs = parse_functions(ll_text)
    enc = Enc(mode)
    out, done = [], set()
    for n in names:
        translate(funcs, n, enc, out, done)
    return '\n'.join(out), {n: funcs[n] for n in names}


if __name__ == '__main__':
    txt = open(sys.argv[1]).read()
    smt, _ = ir_to_smt(txt, sys.argv[3:], sys.argv[2])
    print(smt)
