#!/bin/bash
# run_all.sh [tier]: every claimed check once on the current tree; one summary line per property
tier=${1:-quick}
for p in $(python3 -c "import json; print(' '.join(c['property_id'] for c in json.load(open('MANIFEST.json'))['checks']))"); do
  s=$(date +%s); python3 run_check.py $p --tier $tier > out/all_$p.log 2>&1; rc=$?; e=$(date +%s)
  echo "$p rc=$rc $((e-s))s $(grep -c '^VIOLATION' out/all_$p.log) viol $(grep -c '^INCONCLUSIVE' out/all_$p.log) inconcl $(grep -c '^KNOWN-FINDING' out/all_$p.log) known"
done
